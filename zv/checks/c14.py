"""C14 - object graphs round-trip and reference extraction is exact.

1. TLC checks the ZGraph design exhaustively on small constants (every mutation program): reference
   extraction by format = the ordinary references, no dangling reference, round trip, stored iff
   reachable-or-added, pack keeps exactly the reachable records.
2. TLC enumerates ALL small graphs (InitGraphs: every edge set up to a bound, every set of add()ed
   nodes) and prints, for each, the state after the commit and after a pack; every one is built from
   real classes, committed, loaded in another connection, exported/imported and packed.
3. TLC -simulate generates mutation programs of a larger configuration; each is replayed call by call.
Expected values are read from the TLC states only (zv/drivers/graph.py holds no commit semantics)."""
import glob
import hashlib
import os

from .. import tlc
from ..drivers import graph as G
from ..drivers import graph_par

ASSUME = ['TLC results are exhaustive only within the stated constants (<= 4 nodes, <= 2 foreign nodes, 4 container shapes)',
          'the byte level of pickles is not modelled: oid byte patterns (incl. all-ASCII, all-high, pickle-opcode bytes) '
          'are a concretisation parameter rotated over the replays',
          'import is judged on exports made of ordinary references only (ExportImport documents that it does not '
          'handle weak references; cross-database export is listed as missing in cross-database-references.rst)',
          'a weak reference to an object without oid makes the commit store that object (deviation named in '
          'persistent_id; constant WeakAdds)',
          'after a pack "another connection" is one that has not cached the packed-away objects (a pack sends no invalidations)',
          'savepoint rollback / abort are not taken while an object about to be disowned is registered as changed, or '
          'while an object left without oid holds a WeakRef to a disowned one (the WeakRef keeps the stale oid): C11 (F16/F23 family)',
          'deviation constants (SavepointOrphans, ImportNotCreating, Py2Remap, BrokenContainerUnloadable, '
          'BrokenReduceLosesArgs) are set per tree: TRUE where the replayed TLC counterexample conforms to the as-it-is model',
          'the loading connection B is the only other connection of database "1", so the pool hands the same connection '
          'back (checked: machinery failure otherwise)',
          'transaction, persistent, zodbpickle trusted as installed']

INVARIANTS = ['TypeOK', 'ExtractExact', 'NoDanglingStrong', 'NoDanglingWeak', 'RoundTrip', 'PackKeepsReachable',
              'PresentClassesLoad', 'AllStoredLoad']
PROPERTIES = ['StoredIffReachableOrAdded', 'CommitTouchesOnlyClosure', 'OnlyCommitAndPackStore', 'TouchKeepsRecords']
ACTIONS = ('AddEdge', 'RemoveEdge', 'ExplicitAdd', 'Commit', 'LoadElsewhere', 'Pack',
           'MinimizeAllB', 'MinimizeSomeB', 'AbortB', 'CloseB', 'ResetCaches', 'Savepoint', 'Rollback', 'TouchElsewhere',
           'Abort', 'ImportCopy')
# deviation constants: TRUE = the code as it is (what every conformance run uses)
DEVIATIONS = ('SavepointOrphans', 'Py2Remap', 'BrokenContainerUnloadable', 'BrokenReduceLosesArgs', 'ImportNotCreating')
FORMATS = ('oc', 'o', 'w', 'wd', 'm', 'n')


def consts(NNode=3, FNodes=(100,), Holders=('direct', 'list'), KindSets='KS_Rot0', MaxEdges=2, MaxOps=5,
           WeakAdds=True, NCand=1, CandSize=1, Lifecycle=False, Savepoints=False, MaxSp=2, Touches=False,
           ImportSlots=(), repaired=()):
    def b(x):
        return 'TRUE' if x else 'FALSE'
    dev = {d: b(d not in repaired) for d in DEVIATIONS}
    return {**dev, 'Savepoints': b(Savepoints), 'MaxSp': MaxSp, 'Touches': b(Touches),
            'ImportSlots': '{' + ', '.join(str(x) for x in ImportSlots) + '}', 'NNode': NNode, 'FNodes': '{' + ', '.join(str(f) for f in FNodes) + '}',
            'Holders': '{' + ', '.join('"%s"' % h for h in Holders) + '}', 'KindSets': '<- ' + KindSets,
            'MaxEdges': MaxEdges, 'MaxOps': MaxOps, 'WeakAdds': 'TRUE' if WeakAdds else 'FALSE',
            'NCand': NCand, 'CandSize': CandSize, 'Lifecycle': 'TRUE' if Lifecycle else 'FALSE'}


def _cfg(ctx, name, c, **kw):
    return tlc.write_cfg(os.path.join(ctx.scratch, name + '.cfg'), constants=c, **kw)


def opts_for(i, seed):
    """concretisation parameters outside the model, rotated deterministically"""
    k = i + seed
    return ('mapping', 'file')[k % 2], G.PATTERNS[(k // 2) % len(G.PATTERNS)], {'minimize': (k // 12) % 3 == 0}


def jobs_for(ctx, items, fnodes, tag, both=False):
    jobs = []
    for i, it in enumerate(items):
        st, pat, o = opts_for(i, ctx.seed)
        for s in ((st, 'file' if st == 'mapping' else 'mapping') if both else (st,)):
            jobs.append((it, s, pat, tuple(fnodes), os.path.join(ctx.scratch, 'rp-%s-%d-%s' % (tag, i, s)), o))
    return jobs


class Tally:
    def __init__(self):
        self.n = 0
        self.steps = 0
        self.distinct = set()
        self.nontrivial = set()
        self.actions = {}
        self.formats = {}
        self.counts = {}
        self.weak_added = 0
        self.new_stored = 0
        self.by_storage = {}
        self.by_pattern = {}
        self.samples = []
        self.skipped = 0
        self.fatal = 0          # behaviours that stopped at a divergence
        self.by_signature = {}  # one replay file per signature; occurrences are counted here

    def _first(self, sig):
        key = '%(action)s/%(what)s/%(item)s' % sig
        self.by_signature[key] = self.by_signature.get(key, 0) + 1
        return self.by_signature[key] == 1

    def add(self, ctx, results, mode):
        for r in results:
            self.n += 1
            self.steps += r['steps']
            h = hashlib.sha1('|'.join(r['sig']).encode() + repr(r.get('key')).encode()).hexdigest()
            self.distinct.add(h)
            if r['new_stored'] or r['edges_stored']:
                self.nontrivial.add(h)
            for d, s in ((self.actions, r['actions']), (self.formats, r['formats']), (self.counts, r['counts'])):
                for k, v in s.items():
                    d[k] = d.get(k, 0) + v
            self.weak_added += r['weak_added']
            self.new_stored += r['new_stored']
            self.by_storage[r['storage']] = self.by_storage.get(r['storage'], 0) + 1
            self.by_pattern[r['pattern']] = self.by_pattern.get(r['pattern'], 0) + 1
            if r['new_stored'] and len(self.samples) < 6 and sum(1 for x in self.samples if x[0] == mode) < 2:
                self.samples.append([mode, '%s/%s' % (r['storage'], r['pattern'])] + r['sig'][:20])
            for sm in r.get('soft', ()):
                if not self._first({'action': sm['action'], 'what': sm['what'], 'item': sm['item']}):
                    continue
                ctx.violation({'action': sm['action'], 'what': sm['what'], 'item': sm['item']},
                              '%s: %s storage, oid pattern %s, behaviour %s: %s' % (
                                  mode, r['storage'], r['pattern'], ' '.join(r['sig'][:16]), sm['detail']),
                              replay={'mode': mode, 'storage': r['storage'], 'pattern': r['pattern'], 'opts': r['opts'],
                                      'fnodes': r['fnodes'], 'prefix': r['sig'], 'source': r.get('source')})
            mm = r['mismatch']
            if mm:
                self.fatal += 1
                sig = {'action': G_ALIAS.get(mm['action'], mm['action']), 'what': mm['what'], 'item': mm['item']}
                if not self._first(sig):
                    continue
                ctx.violation(sig, '%s: %s storage, oid pattern %s, step %d %s%s: %s' % (
                    mode, r['storage'], r['pattern'], mm['step'], mm['action'], mm['args'], mm['detail']),
                    replay={'mode': mode, 'storage': r['storage'], 'pattern': r['pattern'], 'opts': r['opts'],
                            'fnodes': r['fnodes'], 'prefix': mm['prefix'], 'init': mm['init'], 'source': r.get('source')})


G_ALIAS = {'InitSim': 'Init', 'InitGraphs': 'Init', 'CommitPrinted': 'Commit'}


def _replay_job(job):
    r = G.replay_behaviour(job)
    r['opts'] = job[5]
    r['fnodes'] = list(job[3])
    if isinstance(job[0], str) and job[0].startswith('<< "GRAPH"'):
        r['key'] = hashlib.sha1(job[0].encode()).hexdigest()
    if (r['mismatch'] or r.get('soft')) and isinstance(job[0], str):
        src = job[0]
        if not src.startswith('<< "GRAPH"'):
            with open(src) as f:
                src = f.read()
        r['source'] = src
    return r


def replay_jobs(ctx, tally, jobs, mode, chunksize, batch=1600, enough=40):
    """Replay in batches; once the run is red beyond doubt the remaining behaviours are skipped (and counted)."""
    for i in range(0, len(jobs), batch):
        if tally.fatal >= enough:
            tally.skipped += len(jobs) - i
            ctx.notes.append('%s: %d behaviours not replayed after %d diverging behaviours' % (mode, len(jobs) - i, tally.fatal))
            return
        tally.add(ctx, graph_par.pmap(_replay_job, jobs[i:i + batch], ctx.scratch, chunksize=chunksize, on_death=_died), mode)


def _died(job, status):
    """the interpreter died (or hung) while replaying this behaviour"""
    how = 'signal %d' % os.WTERMSIG(status) if os.WIFSIGNALED(status) else 'exit %d' % os.WEXITSTATUS(status)
    if os.WIFSIGNALED(status) and os.WTERMSIG(status) == 9:
        how = 'killed after the chunk timeout'
    src = job[0]
    if isinstance(src, str) and not src.startswith('<< "GRAPH"'):
        with open(src) as f:
            src = f.read()
    return {'steps': 0, 'sig': ['(process died)'], 'soft': [], 'new_stored': 0, 'edges_stored': 0, 'weak_added': 0, 'actions': {},
            'formats': {}, 'counts': {}, 'storage': job[1], 'pattern': job[2], 'fnodes': list(job[3]), 'opts': job[5],
            'source': src, 'key': hashlib.sha1(repr(job[0]).encode()).hexdigest(),
            'mismatch': {'step': -1, 'action': 'any', 'args': '', 'what': 'crash', 'item': how, 'prefix': [], 'init': None,
                         'detail': 'the interpreter died (%s) while this behaviour was replayed' % how}}


class Batch:
    """TLC runs of one check, started together (threads that wait for a JVM each; all joined before any replay
    worker is forked) and booked in the order they were asked for."""

    def __init__(self, ctx, parallel):
        self.ctx, self.parallel, self.jobs, self.results = ctx, parallel, [], {}

    def mc(self, name, cfg, expect=None, workers=2, **kw):
        self.jobs.append((name, 'mc', expect, dict(kw, cfg=cfg, workers=workers)))

    def sim(self, name, c, num, depth):
        wd = os.path.join(self.ctx.scratch, 'sim-' + name)
        out = os.path.join(wd, 'out')
        os.makedirs(out)
        cfg = tlc.write_cfg(os.path.join(wd, name + '.cfg'), constants=c, init='InitSim')
        self.jobs.append((name, 'sim', (out, num), dict(cfg=cfg, workdir=wd, simulate='file=%s/tr,num=%d' % (out, num),
                                                        depth=depth, seed=self.ctx.seed + 1, workers=1, timeout=1200)))

    def run(self):
        from concurrent.futures import ThreadPoolExecutor
        ctx = self.ctx
        with ThreadPoolExecutor(max_workers=self.parallel) as ex:
            futs = [(j, ex.submit(tlc.run, 'MCZGraph', j[3].pop('cfg'), **j[3])) for j in self.jobs]
            done = [(j, f.exception(), f) for j, f in futs]
        for (name, kind, expect, kw), err, f in done:
            if err is not None:
                raise err
            r = f.result()
            if kind == 'sim':
                if not r.ok:
                    raise tlc.TLCError('simulation %s: %s\n%s' % (name, r.violation, r.output[-2000:]))
                ctx.model['runs'].append(dict(r.summary(), name='simulate-' + name))
                files = sorted(glob.glob(os.path.join(expect[0], 'tr_*')))
                if len(files) < expect[1]:
                    raise tlc.TLCError('simulation %s produced %d of %d behaviours' % (name, len(files), expect[1]))
                r.files = files
            else:
                ctx.add_tlc(name, r)
                if expect is None and not r.ok:
                    raise tlc.TLCError('%s: unexpected violation of %s\n%s' % (name, r.violation, r.output[-3000:]))
                if expect is not None and r.violation != expect:
                    raise tlc.TLCError('%s: expected violation of %s, got %s' % (name, expect, r.violation))
            self.results[name] = r
        return self.results


GRAPH_INVARIANTS = ['TypeOK', 'RoundTrip', 'ExtractExact', 'NoDanglingStrong', 'NoDanglingWeak', 'PackKeepsReachable']


def graphs(ctx, tally, name, r, fnodes, both=False):
    """all small graphs of one configuration (r: the TLC run that printed them) -> number of cases"""
    cases = G.split_graph_cases(r.output)
    del r.output
    if len(set(cases)) != len(cases) or not cases:
        raise tlc.TLCError('%s: %d printed graph cases, %d distinct' % (name, len(cases), len(set(cases))))
    replay_jobs(ctx, tally, jobs_for(ctx, cases, fnodes, name, both), 'graphs/' + name, chunksize=16)
    return len(cases)


def programs(ctx, tally, name, r, fnodes):
    replay_jobs(ctx, tally, jobs_for(ctx, r.files, fnodes, name), 'programs/' + name, chunksize=4)
    return len(r.files)


WITNESS = dict(NNode=2, FNodes=(), Holders=('direct',), KindSets='KS_Rot0', MaxEdges=1, MaxOps=3, WeakAdds=False)


def deviation_witness(ctx, r):
    """The named deviation: with WeakAdds = FALSE (a weak reference does not add its target) TLC exhibits a
    commit after which a weak reference leads to nothing.  Replayed on the code, the behaviour must leave
    that specification exactly at the commit, by storing the target: the code has the deviation."""
    steps = [dict(s) for s in r.trace]
    res = G.replay_behaviour((steps, 'mapping', 'seq', (), os.path.join(ctx.scratch, 'witness'), {}))
    mm = res['mismatch']
    if mm is None:
        ctx.notes.append('the code no longer stores the target of a weak reference to a new object '
                         '(behaviour %s conforms to WeakAdds = FALSE)' % res['sig'])
        return 'absent'
    if (mm['action'], mm['what'], mm['item']) != ('Commit', 'hasOid', 'extra'):
        # up to the commit both settings of WeakAdds agree: any other divergence is one from the specification
        ctx.violation({'action': G_ALIAS.get(mm['action'], mm['action']), 'what': mm['what'], 'item': mm['item']},
                      'witness behaviour %s, step %d: %s' % (res['sig'], mm['step'], mm['detail']),
                      replay={'mode': 'witness', 'prefix': mm['prefix'], 'init': mm['init']})
        return 'undetermined'
    return 'present'


EXHIBITS = [
    # (name, constants, cfg kw, violated property, signature the replay must establish, deviation constant)
    ('orphan-after-savepoint',
     dict(NNode=2, FNodes=(), Holders=('direct',), KindSets='KS_Plain', MaxEdges=1, MaxOps=4, Savepoints=True),
     dict(properties=['StoredIffReachableOrAdded']), 'StoredIffReachableOrAdded',
     ('Commit', 'stored-iff', 'orphan-after-savepoint'), 'SavepointOrphans'),
    ('import-abort-reattach',
     dict(NNode=2, FNodes=(), Holders=('direct',), KindSets='KS_Plain', MaxEdges=1, MaxOps=4, ImportSlots=(1,)),
     dict(invariants=['NoDanglingStrong']), 'NoDanglingStrong',
     ('Commit', 'dangling', 'undone-import-reattached'), 'ImportNotCreating'),
    ('py2-module-name', dict(NNode=2, FNodes=(), Holders=('direct',), KindSets='KS_Py2', MaxEdges=1, MaxOps=3),
     dict(invariants=['LoadedClassesArePresent']), 'LoadedClassesArePresent',
     ('LoadElsewhere', 'class', 'py2-module-name-remapped'), 'Py2Remap'),
    ('missing-container-class', dict(NNode=2, FNodes=(), Holders=('glist', 'gdict'), KindSets='KS_Plain', MaxEdges=1, MaxOps=3),
     dict(invariants=['LoadedAllLoad']), 'LoadedAllLoad',
     ('LoadElsewhere', 'load', 'missing-container-class-unloadable'), 'BrokenContainerUnloadable'),
    ('missing-class-reduce-args', dict(NNode=2, FNodes=(), Holders=('rvalue',), KindSets='KS_Plain', MaxEdges=1, MaxOps=3,
                                       Touches=True),
     dict(properties=['TouchKeepsRecords']), 'TouchKeepsRecords',
     ('TouchElsewhere', 'record', 'missing-class-reduce-args-rewritten'), 'BrokenReduceLosesArgs'),
]


def exhibits(ctx, tally, results):
    """For every deviation constant: with the constant at the code's behaviour TLC exhibits the violated property;
    the counterexample, replayed on the code, must conform step by step - which establishes the violation on the
    code (reported by the replay's property monitor under a signature of its own).  If the replay leaves the
    as-it-is specification instead, the tree under test does not have the deviation: every conformance run of the
    check then uses the repaired setting of that constant (and any other cause of the divergence shows up there).
    -> (what was seen per exhibit, deviations the tree does not have)"""
    jobs = [([dict(s) for s in results['exhibit-' + e[0]].trace], 'mapping', 'seq', (),
             os.path.join(ctx.scratch, 'exhibit-' + e[0]), {}) for e in EXHIBITS]
    out, repaired = {}, []
    for e, res in zip(EXHIBITS, graph_par.pmap(_replay_job, jobs, ctx.scratch, chunksize=1, on_death=_died)):
        name, want, dev = e[0], e[4], e[5]
        res['source'] = None
        got = {(sm['action'], sm['what'], sm['item']) for sm in res.get('soft', ())}
        if res['mismatch']:
            mm = res['mismatch']
            out[name] = 'the tree does not follow the as-it-is specification (%s %s/%s: %s): %s taken as repaired' % (
                mm['action'], mm['what'], mm['item'], mm['detail'][:160], dev)
            repaired.append(dev)
            ctx.notes.append('exhibit %s: %s' % (name, out[name]))
            continue
        tally.add(ctx, [res], 'exhibit/' + name)
        if want in got:
            out[name] = 'established on the code: ' + ' '.join(res['sig'])
        else:
            out[name] = 'not observed on the code'
            ctx.notes.append('exhibit %s: the replay conforms but the monitor did not fire' % name)
    return out, tuple(repaired)


def run(ctx):
    q = ctx.quick
    tally = Tally()
    batch = Batch(ctx, parallel=10 if q else 6)
    # 1. the design, every program over a small universe
    # (the repaired design: every deviation constant cleared; the deviations are exhibited one by one below)
    mc = [('programs-3n', consts(NNode=3, FNodes=(100,), Holders=('direct', 'list'), KindSets='KS_Rot0',
                                 MaxEdges=2, MaxOps=4 if q else 5, repaired=DEVIATIONS))]
    if not q:
        mc.append(('programs-2n-kinds', consts(NNode=2, FNodes=(100, 101), Holders=('direct', 'deep'), KindSets='KS_Any',
                                               MaxEdges=2, MaxOps=4, repaired=DEVIATIONS)))
    for name, c in mc:
        batch.mc(name, _cfg(ctx, name, c, invariants=INVARIANTS, properties=PROPERTIES, view='View'), workers=6, timeout=1500)
    # the loading connection through its life-cycle (close / re-open from the pool, resetCaches, deactivation, abort)
    lc = consts(NNode=2, FNodes=(), Holders=('direct',), KindSets='KS_Rot0', MaxEdges=1, MaxOps=5 if q else 7, Lifecycle=True)
    batch.mc('lifecycle-2n', _cfg(ctx, 'lifecycle-2n', lc, invariants=['TypeOK', 'BOK', 'RoundTrip'],
                                  properties=['SameUnlessReset'], view='View'), timeout=900)
    batch.mc('weakadds-off', _cfg(ctx, 'weakadds-off', consts(**WITNESS), invariants=['WeakTargetsStored'], view='View'),
             expect='WeakTargetsStored', workers=1, timeout=300)
    # savepoints: the repaired design (a commit copies only justified records) has every property
    sp = consts(NNode=3, FNodes=(), Holders=('direct',), KindSets='KS_Plain', MaxEdges=2, MaxOps=4 if q else 5,
                Savepoints=True, ImportSlots=(2,), repaired=DEVIATIONS)
    batch.mc('savepoints-3n', _cfg(ctx, 'savepoints-3n', sp, invariants=INVARIANTS + ['NoStaleObjects'], view='View',
                                   properties=PROPERTIES + ['SavepointsInvisible']), workers=4, timeout=900)
    for name, c, kw, prop, want, dev in EXHIBITS:
        batch.mc('exhibit-' + name, _cfg(ctx, 'exhibit-' + name, consts(**c), view='View', **kw), expect=prop, workers=1,
                 timeout=600)
    results = batch.run()
    # every TLC thread is joined: replay the counterexamples; they say which deviations the tree under test has
    witness = deviation_witness(ctx, results['weakadds-off'])
    shown, repaired = exhibits(ctx, tally, results)
    batch = Batch(ctx, parallel=6)
    # 2. all small graphs
    # node kinds of the quick configuration: newargs (root), gone, gonenew; plain nodes are in the programs
    gcfgs = [('graphs-rot1', consts(NNode=3, FNodes=(100,), Holders=('direct', 'deep'), KindSets='KS_Rot1', MaxEdges=2,
                                    repaired=repaired), (100,))]
    if not q:
        gcfgs += [
            ('graphs-3edges', consts(NNode=3, FNodes=(), Holders=('direct', 'list'), KindSets='KS_Rot0', MaxEdges=3,
                                     repaired=repaired), ()),
            ('graphs-3holders', consts(NNode=3, FNodes=(100, 101), Holders=('list', 'dict', 'deep'),
                                       KindSets='KS_Rot2', MaxEdges=2, repaired=repaired), (100, 101)),
            ('graphs-rot3', consts(NNode=3, FNodes=(101,), Holders=('list', 'dict'), KindSets='KS_Rot3', MaxEdges=2,
                                   repaired=repaired), (101,)),
        ]
    for name, c, fn in gcfgs:
        batch.mc(name, _cfg(ctx, name, c, init='InitGraphs', next_='NextGraphs', invariants=GRAPH_INVARIANTS), workers=4,
                 timeout=1500, heap='6g')
    # 3. mutation programs of a larger configuration
    big = consts(NNode=4, FNodes=(100, 101), Holders=('direct', 'list', 'dict', 'deep', 'glist', 'gdict', 'rvalue'),
                 KindSets='KS_RootPlain', MaxEdges=6, MaxOps=14, NCand=40, CandSize=6, Lifecycle=True, Savepoints=True,
                 Touches=True, repaired=repaired)
    batch.sim('programs-4n', big, num=1500 if q else 12000, depth=18)
    # savepoint-dense programs over a small universe (savepoint, rollback to any live savepoint, re-attach, commit)
    spd = consts(NNode=3, FNodes=(), Holders=('direct', 'list'), KindSets='KS_Three', MaxEdges=3, MaxOps=11, NCand=12,
                 CandSize=7, Savepoints=True, ImportSlots=(2,), repaired=repaired)
    batch.sim('programs-sp', spd, num=500 if q else 4000, depth=13)
    results = batch.run()
    ncases = {}
    for name, c, fn in gcfgs:
        ncases[name] = graphs(ctx, tally, name, results[name], fn, both=not q and name == 'graphs-rot1')
    nprog = programs(ctx, tally, 'programs-4n', results['programs-4n'], (100, 101))
    nprog += programs(ctx, tally, 'programs-sp', results['programs-sp'], ())
    # vacuity
    missing = [a for a in ACTIONS if not tally.actions.get(a)] + [f for f in FORMATS if not tally.formats.get(f)]
    for k in ('imports', 'exports', 'packs', 'loads', 'refs_checked', 'loads_after_reset', 'loads_reusing_objects',
              'handle_checks', 'probes'):
        if not tally.counts.get(k):
            missing.append(k)
    if not tally.weak_added:
        missing.append('weak-reference-adds-target')
    if missing and not ctx.violations and not ctx.known:
        raise RuntimeError('vacuous run: never exercised %s' % missing)
    return ctx.finish({
        'evaluations': tally.n,
        'distinct_nontrivial': len(tally.nontrivial),
        'distinct': len(tally.distinct),
        'rule': 'one evaluation = one behaviour replayed on real connections (multi-database of two, MappingStorage / '
                'FileStorage alternating, six oid byte patterns rotating): either one of ALL graphs TLC enumerates for a '
                'configuration (every edge set up to MaxEdges over {strong, weak} x container shapes x local/foreign '
                'targets, every set of add()ed nodes; build, commit, then the loading connection through its life-cycle - '
                'load, cacheMinimize, close, re-open from the pool and load, resetCaches, close, re-open and load, pack, '
                'load) or one TLC -simulate mutation program (AddEdge / RemoveEdge / ExplicitAdd / Commit / LoadElsewhere / '
                'Pack / MinimizeAllB / MinimizeSomeB / AbortB / CloseB / ResetCaches / Savepoint / Rollback(k) / Abort / '
                'ImportCopy / TouchElsewhere, <= 16 operations, 4 nodes, every class-kind assignment incl. a class in a '
                'module named like a py2 stdlib module; container shapes incl. instances of missing list / dict / value '
                'classes; a second, savepoint-dense program set over 3 nodes) or the TLC counterexample of one deviation '
                'constant (exhibit).  The property monitor reports, under its own signature, every step TLC marks as '
                'breaking the property in the code-as-it-is model once the code has been seen to take it.  After EVERY action: oids / add()ed / changed flags of '
                'connection A, every raw record decoded without ZODB.serialize (class description, references by kind and '
                'container shape, no embedded instance), referencesf and get_refs per record with the classes '
                'un-importable; at LoadElsewhere: every node in another connection (class or placeholder, constructor '
                'arguments, state, weak targets alive or gone; ONE object per oid: the object reached through every '
                'reference, get(oid) and root() is the same, and the same as the one handed out earlier in the same cache '
                'generation (TLC says when a reset generation intervened); a change made through a referrer\'s handle is '
                'visible through get(oid) and gone from both after the abort), export set of every node, '
                'isomorphism of every importable copy.  distinct = distinct behaviour; non-trivial = the behaviour stored '
                'at least one new object or reference',
        'traces_validated_against_impl': tally.n,
        'steps': tally.steps,
        'graph_cases': ncases,
        'programs': nprog,
        'skipped_after_violations': tally.skipped,
        'divergences_by_signature': tally.by_signature,
        'exhaustive': False,
        'exhaustive_note': 'the graph configurations are replayed completely (every case TLC enumerates); the 4-node programs are sampled',
        'actions': tally.actions,
        'reference_formats_in_records': tally.formats,
        'observations': tally.counts,
        'new_objects_stored': tally.new_stored,
        'stored_through_weak_reference_only': tally.weak_added,
        'weak_adds_deviation_in_code': witness,
        'deviations_exhibited': shown,
        'deviations_the_tree_does_not_have': list(repaired),
        'per_storage': tally.by_storage,
        'per_oid_pattern': tally.by_pattern,
        'samples': tally.samples or [['(no sample)']],
    }, ASSUME)


def replay(ctx, data):
    rp = data['replay']
    if not rp.get('source'):
        raise RuntimeError('replay file carries no behaviour')
    src = rp['source']
    if not src.startswith('<< "GRAPH"'):
        path = os.path.join(ctx.scratch, 'behaviour.txt')
        with open(path, 'w') as f:
            f.write(src)
        src = path
    job = (src, rp['storage'], rp['pattern'], tuple(rp['fnodes']), os.path.join(ctx.scratch, 'rp'), rp.get('opts') or {})
    tally = Tally()
    tally.add(ctx, [_replay_job(job)], rp.get('mode', 'replay'))
    return ctx.finish({'evaluations': 1, 'distinct_nontrivial': 1, 'rule': 'replay of one recorded behaviour',
                       'states': 1, 'transitions': 1, 'samples': [rp.get('prefix') or []], 'exhaustive': False}, ASSUME)
