"""C18 - repozo recover reproduces the backed-up data file byte for byte; verify detects damage.

1. TLC checks the design (ZRepozo with every deviation constant cleared) for all 16 option combinations:
   RecoverExact, VerifyDetects, BackupOnlyCompleteTxns (+ IncrWithinFile, RepoShape, ObsDerived).
2. One deviation constant at a time is set to the behaviour of the code and TLC exhibits the violated clause:
   QuickTrustsEmptyRange (F14), NoopPackRewrites (a pack that frees nothing rewriting the file - what quick mode
   could not notice), ChainByListing (F18: verify / recover follow the directory listing), VerifyNewestOnly (older
   generations are never verified), SameStampAllowed (two runs within one clock second), ShortDateStrict (a truncated
   -D excludes the backup taken at that instant).  Each counterexample is replayed on the real code to its end: if
   the code shows that violation the constant stays set for step 3 (and the violation is reported with its structural
   signature), if the property holds on it the repaired behaviour is the model of this tree.
3. TLC dumps the whole state graph of that model (a graph with every kind of run and damage to every file, and a
   longer one with an advancing clock); every transition is replayed on a real FileStorage + the real repozo
   functions (zv/drivers/repozo_graph.py: depth-first with checkpoints), every state's recoveries (every clock
   second; full date, -w, truncated date) and verifications (full, quick) are real calls compared with what TLC
   printed for that state (conformance) and with what the property demands (`want`, `must`), every Damage transition
   is applied, observed and undone.
"""
import hashlib
import os
import random

from .. import par, tlaparse, tlc
from ..concretize import norm
from ..drivers import repozo as rd
from ..drivers import repozo_graph as rg

SPEC = 'ZRepozo'
INVARIANTS = ['RecoverExact', 'VerifyDetects', 'BackupOnlyCompleteTxns', 'IncrWithinFile', 'RepoShape', 'ObsDerived']
ALL_OPTS = tuple(range(16))

ASSUME = ['TLC results are exhaustive only within the stated constants (chunks, operations, backup runs)',
          'one chunk per transaction, all transactions of equal byte size within a replay (sizes 1x, ~3 KiB, ~20 KiB across '
          'replays); every transaction writes the same object: a pack to the time after the k-th transaction frees the k-1 before it and changes every remaining byte range (asserted by the driver), k = 1 frees nothing and must leave the file alone (a file that changed all the same is taken as it is and the recovery judged against it)',
          'md5 is modelled as injective; gzip, md5 and the FileStorage format are exercised only as far as the replays go',
          'fsync is a no-op in the replays (durability of the backup files is not part of C18)',
          'damage is any one file of the repository - a data file of any generation or an .index (not a .dat): removed, '
          'truncated (seeded cut), or one byte altered (seeded position; for gzip files inside the compressed stream or '
          'trailer, not the header time stamp); nothing is recorded about .index files, so their damage is exercised '
          '(recovered bytes must still be exact) but neither verification nor the restored index is judged then',
          'the clock of repozo ticks in steps of 1 s, 1 min, 1 h or 1 day (per replay); a truncated date is used where it '
          'names a run\'s instant exactly',
          'transaction, persistent, zodbpickle trusted as installed']


DEVIATIONS = ('QuickTrustsEmptyRange', 'NoopPackRewrites', 'ChainByListing', 'VerifyNewestOnly', 'SameStampAllowed',
              'ShortDateStrict')


def consts(opts, chunks, ops, backups, dev=(), same=1):
    """dev: the deviation constants set to TRUE (the behaviour of the code as it is / was)"""
    c = {'MaxChunks': chunks, 'MaxOps': ops, 'MaxBackups': backups, 'MaxSame': same,
         'Opts': '{' + ', '.join(str(o) for o in sorted(opts)) + '}'}
    for d in DEVIATIONS:
        c[d] = 'TRUE' if d in dev else 'FALSE'
    return c


def cfg(ctx, name, c, invariants=(), next_='Next'):
    path = os.path.join(ctx.scratch, name + '.cfg')
    tlc.write_cfg(path, constants=c, next_=next_, invariants=invariants)
    return path


def option_sets(seed):
    """Three option combinations for the quick tier: a quick incremental one, a comparing incremental one and a
    forced full one; gzip and kill-old are each on and off at least once."""
    rng = random.Random(seed * 7919 + 18)
    zs = [0, 1, rng.getrandbits(1)]
    ks = [0, 1, rng.getrandbits(1)]
    rng.shuffle(zs)
    rng.shuffle(ks)
    qs = [1, 0, rng.getrandbits(1)]
    fs = [0, 0, 1]
    return sorted({fs[i] | qs[i] << 1 | zs[i] << 2 | ks[i] << 3 for i in range(3)})


def job_opts(ctx, i):
    return {'pad': (0, 3000, 20000)[(i + ctx.seed) % 3], 'via_main': (i + ctx.seed) % 2 == 0,
            'time_step': (60, 1, 86400, 3600)[(i // 2 + ctx.seed) % 4], 'rng_seed': ctx.seed * 100003 + i}


def trace_steps(trace):
    steps = [{'action': s['action'], 'args': s['args'], 'state': s['state']} for s in trace]
    steps[0]['action'] = 'Init'
    return steps


def report(ctx, r, origin):
    for v in r['violations']:
        sig = dict(v['sig'], kind=v['kind'])
        ctx.violation(sig, '[%s] after %s%s: %s' % (origin, ' '.join(v['prefix'][-12:]) or 'Init',
                                                    (' + probe Damage(%s)' % ','.join(v['probe'])) if v['probe'] else '', v['text']),
                      replay={'steps': v['steps'], 'opts': r['opts'], 'origin': origin})


def replay_trace(ctx, trace, name, i=0):
    """TLC's counterexample on the real code, to the end whatever happens on the way (lenient), with every variant
    of every recovery (plain, -w, truncated date: the clock ticks in days so that a date alone names a run)."""
    wd = os.path.join(ctx.scratch, 'cx-%s' % name)
    r = rd.replay_path((trace_steps(trace), wd, dict(job_opts(ctx, i), lenient=True, all_variants=True, time_step=86400)))
    r['opts'].pop('lenient')
    return r


def exhibits(r, clause):
    return any(v['kind'] == 'property' and v['sig'].get('clause') == clause for v in r['violations'])


def model_check_all(ctx, jobs):
    """ctx.model_check for several independent configurations at once.  jobs: (name, cfg, expected violation, kwargs)"""
    from concurrent.futures import ThreadPoolExecutor
    with ThreadPoolExecutor(max_workers=len(jobs)) as ex:
        futs = [(name, want, ex.submit(tlc.run, SPEC, c, workdir=None, **kw)) for name, c, want, kw in jobs]
        out = {}
        for name, want, f in futs:
            r = f.result()
            ctx.add_tlc(name, r)
            if want is None and not r.ok:
                raise tlc.TLCError('%s: unexpected violation of %s\n%s' % (name, r.violation, r.output[-3000:]))
            if want is not None and r.violation != want:
                raise tlc.TLCError('%s: expected violation of %s, got %s' % (name, want, r.violation))
            out[name] = r
    return out


def graph_dump(ctx, name, c, next_='Next'):
    wd = os.path.join(ctx.scratch, 'graph-' + name)
    os.makedirs(wd, exist_ok=True)
    dot = os.path.join(wd, 'graph.dot')
    r = tlc.run(SPEC, cfg(ctx, 'graph-' + name, c, invariants=['BackupOnlyCompleteTxns', 'IncrWithinFile', 'RepoShape', 'ObsDerived'], next_=next_),
                workdir=wd, dump_dot=dot, timeout=1500, extra=('-fp', '18'), workers=max(2, (os.cpu_count() or 4) // 2))
    if not r.ok:
        raise tlc.TLCError('graph %s: %s\n%s' % (name, r.violation, r.output[-2000:]))
    return r, dot


def graphs_replay(ctx, specs, cov):
    """specs: dicts(name, c, keep, next_, primary).  The graphs are dumped side by side, then replayed one by one."""
    from concurrent.futures import ThreadPoolExecutor
    with ThreadPoolExecutor(max_workers=len(specs)) as ex:
        futs = [ex.submit(graph_dump, ctx, sp['name'], sp['c'], sp.get('next_', 'Next')) for sp in specs]
        dumps = [f.result() for f in futs]
    for sp, (r, dot) in zip(specs, dumps):
        graph_replay(ctx, sp['name'], sp['c'], cov, r, dot, keep=sp.get('keep'), primary=sp.get('primary', True))


def graph_replay(ctx, name, c, cov, r, dot, keep=None, primary=True):
    ctx.add_tlc('graph-' + name, r)
    g = rg.load(dot)
    os.remove(dot)
    if len(g.raw) != r.distinct:
        raise RuntimeError('dumped graph has %d states, TLC reported %d' % (len(g.raw), r.distinct))
    pl = rg.plan(g, ctx.seed, keep=keep, min_jobs=64 if keep is None else 400)
    rg.CURRENT, rg.CURRENT_PLAN = g, pl
    jobs = [(i, os.path.join(ctx.scratch, 'rp-%s-%d' % (name, i)), job_opts(ctx, i)) for i in range(len(pl.jobs))]
    results = par.pmap(rg.replay_tree, jobs, chunksize=1)
    rg.CURRENT = rg.CURRENT_PLAN = None
    st = dict(pl.stats, opts=c['Opts'], primary=primary, step_transitions_replayed=0, damage_transitions_replayed=0, states_observed=0)
    for r in results:
        st['step_transitions_replayed'] += r['cover']['step']
        st['damage_transitions_replayed'] += r['cover']['damage']
        st['states_observed'] += r['cover']['states']
        for h, nt in r['leaves']:
            cov['_distinct'].add(h)
            if nt:
                cov['_nontrivial'].add(h)
        cov['behaviours'] += len(r['leaves'])
    if not st['sampled'] and (st['step_transitions_replayed'] != st['step_transitions'] or
                              st['damage_transitions_replayed'] != st['damage_transitions'] or
                              st['states_observed'] != st['step_states']):
        if not ctx.violations and not ctx.known:
            raise RuntimeError('plan did not cover the graph: %r' % st)
    judge(ctx, results, 'graph ' + name, cov)
    cov['graphs'][name] = st
    return st


def judge(ctx, results, origin, cov):
    for r in results:
        cov['steps'] += r['steps']
        cov['observed_states'] += r['observed']
        cov['damage_probes'] += r['probed']
        if 'sig' in r:         # a linear behaviour
            cov['behaviours'] += 1
            h = hashlib.sha1('|'.join(r['sig']).encode()).hexdigest()[:16]
            cov['_distinct'].add(h)
            if r['actions'].get('Backup', 0) >= 2 or (r['actions'].get('Backup', 0) >= 1 and r['actions'].get('Damage', 0) >= 1):
                cov['_nontrivial'].add(h)
            if len(cov['samples']) < 3 and len(r['sig']) >= 5:
                cov['samples'].append(r['sig'])
        for smp in r.get('samples', ()):
            if len(cov['samples']) < 6:
                cov['samples'].append(smp)
        for a, k in r['actions'].items():
            cov['actions'][a] = cov['actions'].get(a, 0) + k
        for f, k in r['features'].items():
            cov['decisions'][f] = cov['decisions'].get(f, 0) + k
        for k, v in r['counts'].items():
            cov['calls'][k] = cov['calls'].get(k, 0) + v
        for k, v in r['violation_counts'].items():
            cov['violation_counts'][k] = cov['violation_counts'].get(k, 0) + v
        report(ctx, r, origin)


def new_cov():
    return {'behaviours': 0, 'steps': 0, 'observed_states': 0, 'damage_probes': 0, '_distinct': set(), '_nontrivial': set(),
            'actions': {}, 'decisions': {}, 'calls': {}, 'samples': [], 'graphs': {}, 'counterexamples': {},
            'violation_counts': {}}


def run(ctx):
    rd.install()
    q = ctx.quick
    cov = new_cov()
    # 1. the design (deviations cleared) satisfies the property for every option combination
    # 2. one deviation at a time set to the behaviour of the code: TLC exhibits the violated clause; the
    #    counterexample replayed on the tree decides which setting matches it
    #    (the TLC runs of 1 and 2 are independent: they run side by side)
    small = (0, 2, 9)
    jobs = [('design-16-options', cfg(ctx, 'design', consts(ALL_OPTS, 3, 5 if q else 6, 3), INVARIANTS), None, dict(timeout=900, workers=4))]
    if not q:
        jobs.append(('design-5-options-4-chunks', cfg(ctx, 'design-deep', consts((0, 2, 5, 10, 15), 4, 7, 4), INVARIANTS), None,
                     dict(timeout=1500, workers=6)))
    plain = lambda g: g.get('clause') == 'recover' and g.get('damage') == 'none' and g.get('date') != 'short'   # noqa: E731
    CX = (  # name, deviations set, invariant violated, sub-relation, what the code must show, constant decided
        ('empty-incremental', ('QuickTrustsEmptyRange',), 'RecoverExact', 'NextSteadyClock2',
         lambda g: plain(g) and g.get('last_run', '').endswith('quick-empty-range'), 'QuickTrustsEmptyRange'),
        ('noop-pack-rewrites', ('NoopPackRewrites',), 'RecoverExact', 'NextSteadyClock',
         lambda g: plain(g) and not g.get('shared_stamp'), 'NoopPackRewrites'),
        ('listing-verify', ('ChainByListing', 'VerifyNewestOnly'), 'VerifyDetects', 'NextMissingNoTail',
         lambda g: g.get('clause') == 'verify' and g.get('damage') == 'missing' and g.get('target') == 'full', 'ChainByListing'),
        ('listing-recover', ('ChainByListing',), 'RecoverExact', 'NextMissingNoTail',
         lambda g: g.get('clause') == 'recover' and g.get('damage') == 'missing' and g.get('date') != 'short', 'ChainByListing'),
        ('older-generation-verify', ('VerifyNewestOnly',), 'VerifyDetects', 'NextDataDamageNoTail',
         lambda g: g.get('clause') == 'verify' and str(g.get('target', '')).startswith('older-'), 'VerifyNewestOnly'),
        ('same-second', ('SameStampAllowed',), 'RecoverExact', 'NextNoDamage',
         lambda g: g.get('damage') == 'none' and g.get('shared_stamp') and g.get('date') != 'short', 'SameStampAllowed'),
        ('short-date', ('ShortDateStrict',), 'RecoverExact', 'NextSteadyClock',
         lambda g: g.get('clause') == 'recover' and g.get('date') == 'short', 'ShortDateStrict'),
    )
    for name, d, inv, nxt, shows, const in CX:
        jobs.append(('as-code-' + name, cfg(ctx, 'cx-' + name, consts(small, 3, 7, 3, d), [inv], next_=nxt), inv,
                     dict(timeout=600, workers=1, extra=('-fp', '18'))))
    tlc_results = model_check_all(ctx, jobs)
    dev = set()
    for i, (name, d, inv, nxt, shows, const) in enumerate(CX):
        r = tlc_results['as-code-' + name]
        res = replay_trace(ctx, r.trace, name, i)
        shown = any(v['kind'] == 'property' and shows(v['sig']) for v in res['violations'])
        if shown:
            dev.add(const)
        # only what this counterexample is about is reported from here; everything else (other findings met on the way,
        # divergences from the model) is judged by the graph replay, under the constants chosen here
        res['violations'] = [v for v in res['violations'] if v['kind'] == 'property' and shows(v['sig'])]
        res['violation_counts'] = {}
        cov['counterexamples'][name] = {'trace': res['sig'], 'exhibited_by_code': shown,
                                        'outcome': res['violations'][0]['text'] if res['violations'] else 'property holds on this trace'}
        judge(ctx, [res], 'TLC counterexample ' + name, cov)
    noop = 'NoopPackRewrites' in dev
    cov['constants_matching_tree'] = {d: d in dev for d in DEVIATIONS}
    # 3. conformance + property on the whole graph of the model of the code as it is
    if q:
        opts = option_sets(ctx.seed)
        # every kind of run (also a second one within a clock second) and damage to every file, 5 operations; then
        # 6 operations with an advancing clock and damage to the data files
        graphs_replay(ctx, [dict(name='quick', c=consts(opts, 3, 5, 3, dev)),
                            dict(name='quick-steady-clock', c=consts(opts, 3, 6, 3, dev), next_='NextClassic')], cov)
    else:
        sp = [dict(name='all-options', c=consts(ALL_OPTS, 3, 6, 3, dev)),
              dict(name='all-options-steady-clock', c=consts(ALL_OPTS, 3, 7, 3, dev), next_='NextClassic')]
        # seeded samples of two deeper graphs: 4 chunks, 4 runs - 8 operations with an advancing clock, 6 operations with
        # up to two runs that do not advance it
        sp.append(dict(name='deep-steady-clock', c=consts(option_sets(ctx.seed + 1), 4, 8, 4, dev), next_='NextClassic',
                       keep=0.12, primary=False))
        sp.append(dict(name='deep-same-second', c=consts(option_sets(ctx.seed + 2), 4, 6, 4, dev, same=2), keep=0.3, primary=False))
        graphs_replay(ctx, sp, cov)
    need = ['Commit', 'BeginTail', 'AbortTail', 'Pack', 'Backup', 'Damage:missing', 'Damage:trunc', 'Damage:alt']
    lacking = [a for a in need if not cov['actions'].get(a)]
    cov['packs_before_backup'] = {k: v for k, v in cov['decisions'].items() if k.startswith('pack-')}
    cov['decisions'] = {k: v for k, v in cov['decisions'].items() if not k.startswith('pack-')}
    cov['same_second_runs'] = {k: v for k, v in cov['decisions'].items() if k.startswith('same-second>')}
    cov['damage_targets'] = {k: v for k, v in cov['decisions'].items() if k.startswith('damage-')}
    cov['decisions'] = {k: v for k, v in cov['decisions'].items() if not k.startswith(('same-second>', 'damage-'))}
    decs = {d.split('/')[0] for d in cov['decisions']}
    # a second run within one clock second (writing a file / refused), damage to every kind of file of the
    # repository (newest and older generation, .index), recoveries with a truncated date and with -w after damage
    lacking += [k for k in ('same-second>full', 'same-second>incr', 'same-second>refused') if not cov['same_second_runs'].get(k)]
    lacking += [k for k in ('damage-full', 'damage-incr', 'damage-older-full', 'damage-older-incr', 'damage-index')
                if not cov['damage_targets'].get(k)]
    lacking += [k for k in ('short_date', 'recover_w_damaged') if not cov['calls'].get(k)]
    # interleavings of packs and backups that must have been replayed: a pack that freed something / nothing (the
    # latter: 'nothing-freed', or 'rewritten' when the tree under test rewrites the file) followed by a quick run and
    # by a comparing run, and a pack that freed nothing after an incremental followed by a quick run
    pk = cov['packs_before_backup']
    nothing = 'rewritten' if noop else 'nothing-freed'
    need_packs = ['pack-freed>quick', 'pack-freed>comparing', 'pack-%s>quick' % nothing, 'pack-%s>comparing' % nothing,
                  'pack-nothing-freed-after-incremental>quick']
    lacking += [k for k in need_packs if not pk.get(k)]
    if (lacking or not {'full', 'incr', 'nochange'} <= decs) and not ctx.violations:
        # (with unlisted violations the verdict stands: a divergence ends the replay of what lies behind it)
        raise RuntimeError('vacuous replay: never exercised %r, decisions seen %r, packs %r' % (lacking, sorted(decs), pk))
    cov['not_exercised'] = lacking
    distinct, nontrivial = len(cov.pop('_distinct')), len(cov.pop('_nontrivial'))
    exhaustive = all(not g['sampled'] for g in cov['graphs'].values() if g['primary'])
    return ctx.finish({
        'evaluations': cov['behaviours'],
        'distinct_nontrivial': nontrivial,
        'distinct_behaviours': distinct,
        'rule': 'paths through the state graph TLC dumped for ZRepozo (model of the code as it is), planned so that every '
                'transition is replayed at least once on a real FileStorage + real repozo calls; after every Backup the run\'s '
                'decision, the directory, the new file, its .index and the .dat lines are compared with the state TLC printed '
                'and a recovery as of now is made; on the first visit of every state recovery as of every run date and full + '
                'quick verification are real calls compared with TLC\'s obs table, and every Damage transition of the state is '
                'applied, observed the same way and undone; a run may fall into the clock second of the previous one; Damage '
                'is any one file of the repository (data file of any generation, .index); recoveries are made with the full '
                'date, with -w and with a truncated date that names the run\'s instant; packs are made at every pack time of the file (after the k-th '
                'transaction, k = 1 frees nothing) between backups of every option combination of the graph; distinct = distinct action sequence; non-trivial = at least two '
                'backup runs, or a backup run and a damaged file; exhaustive refers to the primary graph (3 chunks, 3 backup '
                'runs, %s; plus the same with the clock advancing at every run and damage to data files only, %s operations): '
                'all of their transitions and states are replayed; the thorough tier adds seeded samples of two deeper graphs '
                '(4 chunks, 4 runs: 8 operations with an advancing clock, 6 operations with up to two runs within one second)' % (
                    ('three seeded option combinations, 5 operations', 6) if q else ('all 16 option combinations, 6 operations', 7)),
        'traces_validated_against_impl': cov['behaviours'],
        'replayed_steps': cov['steps'],
        'observed_states': cov['observed_states'],
        'damage_probes': cov['damage_probes'],
        'real_calls': cov['calls'],
        'actions': cov['actions'],
        'decisions': cov['decisions'],
        'packs_before_backup': cov['packs_before_backup'],
        'same_second_runs': cov['same_second_runs'],
        'damage_targets': cov['damage_targets'],
        'not_exercised': cov['not_exercised'],
        'graphs': cov['graphs'],
        'tlc_counterexamples': cov['counterexamples'],
        'violations_by_signature': cov['violation_counts'],
        'constants_matching_tree': cov['constants_matching_tree'],
        'samples': cov['samples'] or [v['trace'] for v in cov['counterexamples'].values()],
        'exhaustive': exhaustive,
    }, ASSUME)


def _from_json(x):
    """Undo tlaparse.to_jsonable for the parts the driver reads (Boolean keys of obs.verify)."""
    if isinstance(x, dict):
        return {({'True': True, 'False': False}.get(k, k)): _from_json(v) for k, v in x.items()}
    if isinstance(x, list):
        return tuple(_from_json(v) for v in x)
    return x


def replay(ctx, data):
    rd.install()
    rp = data['replay']
    steps = [{'action': s['action'], 'args': list(_from_json(s['args'])), 'state': _from_json(s['state'])} for s in rp['steps']]
    opts = dict(rp['opts'])
    r = rd.replay_path((steps, os.path.join(ctx.scratch, 'replay'), opts))
    print('replayed %s' % ' '.join(r['sig']))
    for v in r['violations']:
        print('%s: %s' % (v['kind'], v['text']))
    cov = new_cov()
    judge(ctx, [r], 'replay', cov)
    return ctx.finish({'evaluations': 1, 'distinct_nontrivial': 1, 'rule': 'replay of one recorded behaviour',
                       'states': len(steps), 'transitions': max(1, len(steps) - 1), 'traces_validated_against_impl': 1,
                       'samples': [r['sig']], 'exhaustive': False}, ASSUME)
