"""C08 - packing is safe under concurrent commits and under a crash at any point."""
import os

from .. import clock, faultfs, par, tlc
from ..drivers import crash, storage as sd
from . import _storage as S
from .c01 import ASSUME


def _mc(ctx):
    inv = ['CrashSafe', 'NoCommitLost', 'PackerReleases', 'FailedPackUnchanged']
    cfg = os.path.join(ctx.scratch, 'zpackconc-design.cfg')
    tlc.write_cfg(cfg, constants={'MaxCommits': 3, 'RenameGap': 'FALSE'}, invariants=inv)
    ctx.model_check('ZPackConc', cfg, name='ZPackConc-atomic-swap')
    # the code as it is: two renames; TLC exhibits the window (finding F6), replayed below as crash images
    cfg2 = os.path.join(ctx.scratch, 'zpackconc-code.cfg')
    tlc.write_cfg(cfg2, constants={'MaxCommits': 2, 'RenameGap': 'TRUE'}, invariants=inv)
    ctx.model_check('ZPackConc', cfg2, name='ZPackConc-as-code', expect_violation='CrashSafe')
    cfg3 = os.path.join(ctx.scratch, 'zfile.cfg')
    tlc.write_cfg(cfg3, constants={'MaxTxn': 3, 'MaxChunk': 40}, init='FInit',
                  invariants=['TypeOK', 'CrashConsistent', 'IdleMeansClean'], properties=['FsyncBeforeAck'], constraint='Bound')
    ctx.model_check('ZFile', cfg3, name='ZFile-protocol')


def run(ctx):
    clock.install()
    faultfs.install()
    q = ctx.quick
    _mc(ctx)
    c2 = sd.consts('file', NOid=4, Metas=('m0',), MaxTxn=9, MaxRecs=3, MaxClock=4, AtomVals=('v1', 'v2'), RefSets='FewRefs2',
                   Cls='MCClsPlain')
    # A. crash at every operation of a pack (writes of .pack, removals, the two renames, index save)
    num = 60 if q else 1200
    files = S.simulate(ctx, 'pack', c2, num=num, depth=80, seed=ctx.seed + 41, next_='NextPack')
    jobs = [(f, c2, os.path.join(ctx.scratch, 'c08-%d' % i), {'mode': 'c08', 'pad': (0, 400)[i % 2],
                                                               'fs_kw': {}}) for i, f in enumerate(files)]
    res = par.pmap(crash.run_behaviour, jobs, chunksize=2)
    traces = [r['events'] for r in res]
    images = sum(r['images'] for r in res)
    nontrivial = sum(1 for r in res if r['images'] >= 5)
    for i, r in enumerate(res):
        for p in r['problems']:
            ctx.violation({'kind': 'replay', 'action': p['action']},
                          'replay under the file layer diverged from ZStorage: %s' % (p['detail'],), replay={'sig': r['sig']})
    # validate; an event rejected for a reason listed in known_findings.json is taken out and the REST of the
    # trace is validated again, so that a known finding never hides a different violation behind it
    work = [list(t) for t in traces]
    for rnd in range(8):
        accepted, rejected, tr = tlc.validate_traces('ZFileTrace', work, os.path.join(ctx.scratch, 'tv%d' % rnd),
                                                     constants={'MaxTxn': 0, 'MaxChunk': 0})
        ctx.add_tlc('ZFileTrace-validation-%d' % rnd, tr)
        again = False
        for i, k in rejected.items():
            r = res[i]
            ev = work[i][k] if k is not None and k < len(work[i]) else {'ev': '?'}
            det = [d for d in r['probe_details'] if d['at'] == ev.get('at')][:1]
            if ev.get('ev') == 'ProbePack':
                sig = {'kind': 'pack-crash', 'window': ev['window'], 'after_op': ev['after_op'].split(' ')[0],
                       'recovered': 'other-version' if ev['n'] else 'error-or-no-version'}
                new = ctx.violation(sig, 'crash after %r during a pack reopens to %s%s' % (
                    ev['after_op'], ('version(s) %r of the history, not the unpacked/packed one' % (ev['n'],)) if ev['n'] else 'no version of the history',
                    ('; ' + det[0]['detail']) if det else ''), replay={'sig': r['sig'], 'event': ev})
                if not new:
                    del work[i][k]
                    again = True
            else:
                ctx.violation({'kind': 'trace', 'event': ev.get('ev'), 'window': ev.get('window')},
                              'trace %d rejected by ZFileTrace at event %s %r' % (i, k, ev), replay={'sig': r['sig'], 'event': ev})
        if not again:
            break
    # B. a pack that cannot complete: every write of the .pack file fails in turn; the database stays unchanged and
    #    usable (the following commits must not block and must give the specified answers)
    ff = S.simulate(ctx, 'packfail', c2, num=num, depth=80, seed=ctx.seed + 42, next_='NextPackFail')
    rr = []
    nf = 0
    for k in (0, 1, 2, 3, 5, 8):
        r1 = S.replay_all(ctx, ff, 'file', c2, opts={'fault_k': k, 'sparse': False, 'pad': 0}, tag='pf%d' % k)
        r1 = [r for r in r1 if not r.get('fault_not_reached')]
        nf += sum(r['actions'].get('PackFailQ', 0) for r in r1)
        rr += r1
    # ... and the removal of the Data.fs.old a previous pack left fails
    r1 = S.replay_all(ctx, ff, 'file', c2, opts={'fault_k': 0, 'fault_target': 'old', 'sparse': False, 'pad': 0}, tag='pfold')
    r1 = [r for r in r1 if not r.get('fault_not_reached')]
    nfold = sum(r['actions'].get('PackFailQ', 0) for r in r1)
    rr += r1
    cov = S.judge(ctx, rr, 'file', focus=lambda r: r['actions'].get('PackFailQ', 0) >= 1)
    # C. thread schedules: packer + committers + reader (+ second packer) on the real storage under the scheduler
    import random
    from ..drivers import packconc, scripts as sc
    rng = random.Random(ctx.seed * 17 + 9)
    nsched = 80 if q else 4000
    sjobs = []
    for i in range(nsched):
        sjobs.append((packconc.make(rng), ctx.seed * 1000 + i, os.path.join(ctx.scratch, 'pc-%d' % i), {'stick': (0.3, 0.6, 0.8)[i % 3], 'yield_io': i % 2 == 1}))
    # C'. systematic single-preemption sweeps (sched.Plan): one victim thread is stopped after its k-th yield point,
    #     for every k (quick: an even sample), while the other threads run one after the other to completion - the
    #     reader stopped inside a load across the packer's swap, whole commits placed into every window the packer
    #     leaves, the packer running between any two steps of a commit.  Storages with and without a blob directory
    #     (pack hands the commit lock back at another place when there is one).
    pjobs = []
    nscen = 3 if q else 12
    for si in range(nscen):
        scen = packconc.make(rng)
        scen['second_packer'] = si % 3 == 2
        scen['third_packer'] = si % 3 == 2       # three overlapping pack requests: all but one must be refused
        scen['blob_dir'] = si % 2 == 1
        yio = si % 3 != 2
        names = ['packer'] + ['committer%d' % i for i in range(len(scen['committers']))] + ['reader']
        if scen['second_packer']:
            names += ['packer2', 'packer3']
        scen['reader2'] = si % 2 == 0
        scen['pad'] = 9000 if si % 3 == 1 else 0
        if scen['reader2']:
            names += ['reader2']
        scen['lister'] = 2 if si % 3 == 0 else 0
        if scen['lister']:
            names += ['lister']
        cal = packconc.run((scen, 0, os.path.join(ctx.scratch, 'cal-%d' % si), {'plan': [], 'order': names, 'yield_io': yio}))
        for victim in names:
            others = [n for n in names if n != victim]
            if victim == 'reader':
                others.sort(key=lambda n: n != 'packer')          # the packer first
            elif victim == 'packer':
                others.sort(key=lambda n: not n.startswith('committer'))
            ny = cal['yields'].get(victim, 0) + 2
            ks = list(range(1, ny + 1))
            cap = 30 if q else 400
            if len(ks) > cap:
                ks = sorted({1 + (i * (ny - 1)) // (cap - 1) for i in range(cap)})
            for k in ks:
                pjobs.append((scen, 0, os.path.join(ctx.scratch, 'pp-%d' % len(pjobs)),
                              {'plan': [(victim, k)], 'order': others + [victim], 'yield_io': yio}))
    sres = par.pmap(packconc.run, sjobs + pjobs, chunksize=4)
    good = []
    for r in sres:
        if r['outcome'] != 'ok':
            ctx.violation({'kind': 'sched', 'what': r['outcome']}, 'scheduler outcome %s for %r seed %d' % (r['outcome'], r['scen'], r['seed']),
                          replay={'scen': r['scen'], 'seed': r['seed']})
        for th, err in r['errors'].items():
            ctx.violation({'kind': 'sched', 'what': 'thread-error', 'thread': th.rstrip('0123456789'), 'error': err.split(':')[0]},
                          'thread %s raised %s (%r seed %d)' % (th, err, r['scen'], r['seed']), replay={'scen': r['scen'], 'seed': r['seed']})
        for name, po in r['pack_outcomes']:
            if po != 'returned' and 'Already packing' not in po:
                ctx.violation({'kind': 'sched', 'what': 'pack-outcome', 'outcome': po.split(':')[0]},
                              '%s: %s (%r seed %d)' % (name, po, r['scen'], r['seed']), replay={'scen': r['scen'], 'seed': r['seed']})
        if r['outcome'] == 'ok' and not r['errors'] and r['obs'] is not None:
            good.append(r)
    cs = sd.consts('file', NOid=6, MaxTxn=20, MaxRecs=5, MaxClock=8, AtomVals=('v1', 'v2'), RefSets='AllRefs', Cls='MCClsPlain')
    # (many schedules have the same serial equivalent: TLC evaluates each distinct script once)
    import json
    keyed = [json.dumps(packconc.script_for(r), sort_keys=True) for r in good]
    uniq = sorted(set(keyed))
    ubeh = sc.evaluate(ctx, 'packconc', [json.loads(k) for k in uniq], cs) if uniq else []
    bykey = dict(zip(uniq, ubeh))
    behs = [bykey[k] for k in keyed]
    during = 0
    for r, beh in zip(good, behs):
        for sig, desc in packconc.judge(r, beh):
            ctx.violation(sig, '%s (%r seed %d)' % (desc, r['scen'], r['seed']), replay={'scen': r['scen'], 'seed': r['seed']})
        if r.get('switches', 0) >= 4:
            during += 1
    return ctx.finish({
        'schedules': {'with_io_yields': sum(1 for j in sjobs if j[3].get('yield_io')), 'run': len(sres), 'judged': len(good), 'with_4_switches': during,
                      'systematic_preemption_runs': len(pjobs), 'distinct_serial_equivalents': len(uniq),
                      'second_packer_refused': sum(1 for r in sres for n_, po in r['pack_outcomes'] if 'Already packing' in po),
                      'reads_checked': sum(len(r['reads']) for r in good)},
        'evaluations': images + cov['behaviours'] + len(sres),
        'distinct_nontrivial': nontrivial + cov['nontrivial'] + during,
        'traces_validated_against_impl': len(traces) + cov['behaviours'] + len(good),
        'pack_crash_images': images, 'pack_faults_injected': nf, 'old_file_removal_failures': nfold, 'fault_replays': cov,
        'rule': 'A: pack-heavy behaviours of ZStorage run on a real FileStorage over the recording layer; after EVERY raw '
                'operation issued during a pack (writes of .pack, removal of .old, rename data->.old, rename .pack->data, index '
                'save) the whole directory is copied and reopened; the recovered storage must answer every query like the '
                'unpacked or (after the swap) the packed version of the model history (ZFileTrace probe ProbePack); '
                'B: behaviours in which packs fail (each of the first writes of the .pack file raises in turn) are replayed: '
                'pack must raise, history and all answers unchanged, later commits and packs must not block and must behave as '
                'specified; C: a packer, 1-2 committers, a reader and sometimes a second packer run as real threads on the real '
                'FileStorage under the cooperative scheduler (seeded, switching at lock operations and, in every second run, at every raw read/write of the data and .pack files); afterwards TLC evaluates '
                'the serial equivalent <commits in tid order> pack(T) and the storage in memory and after reopen must answer '
                'every query like it; in addition one victim thread at a time is stopped after its k-th yield point for every k (quick: a sample) while the others run to completion, with and without a blob directory; every value a reader saw must be a committed revision, the second packer must be '
                'refused or run after; TLC checks ZPackConc (lock hand-over with a concurrent committer, failing pack, crash) for the '
                'atomic-swap design and exhibits the two-rename window of the code (F6); non-trivial = behaviour with >= 5 '
                'pack crash images / with an injected pack failure',
        'samples': [[e for e in traces[0] if e['ev'] in ('PackBegin', 'PackSwap', 'PackEnd', 'ProbePack')][:12]] if traces else [],
        'exhaustive': False,
    }, ASSUME + ['thread schedules of packer/committer/reader on the real code are explored at lock granularity by the '
                 'scheduler part (see evidence key schedules) when present'])
