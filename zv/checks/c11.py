"""C11 - in-memory objects follow the outcome of their transaction.

spec/ZConn.tla: Connection bookkeeping (registered / added / creating / modified, cache membership, oid and jar
of every object) through modify, link (implicit add by reachability), unlink, explicit add, commit in its phases
(Begin, Store per object in the order of the real loop, Stored, Vote, Finish) with a failure alternative at each
(an unpicklable value in the k-th object, ConflictError on the k-th object caused by a second connection, another
resource manager failing before / after this one in every phase), abort, close (refused while joined), reopen.
Clauses (derived variable obs.mon, invariants of the design): NewDisowned (owned-uncommitted, state-lost),
AbortRestores + CommitStoresFinalStates (stale, dirty-idle), CleanAfterCommit (serial), NoStateAcrossReuse
(leftover), CloseOnlyOutsideTxn (closed-joined); action properties CommittedTogether, SavepointInvisible.
See zv/checks/_conn.py for the procedure."""
from ..drivers import conn as cd
from . import _conn as K

CLAUSES = ('owned-uncommitted', 'state-lost', 'stale', 'dirty-idle', 'serial', 'leftover', 'closed-joined')
DEVS = ('InvalidateDoomed', 'LeakUnstored', 'AddBeforeJoin', 'ImportNotCreating')        # the deviations whose clauses are this property's
FOCUS = ('Finish', 'FinishThenFail', 'FailBeforeBegin', 'FailBegun', 'StoreRaises', 'StoreConflict', 'FailStored', 'FailVoted',
         'CommitSpConflict', 'CommitSpRaises', 'SavepointRaises', 'CommitSpStoreRaises', 'BeginFails', 'AddWhileFailed', 'ModifyWhileFailed')
NEED = ['Modify', 'Link', 'Unlink', 'AddExplicit', 'Load', 'Begin', 'Store', 'Stored', 'Vote', 'Finish', 'Abort', 'Close',
        'Reopen', 'OtherCommit', 'FailBeforeBegin', 'FailBegun', 'StoreRaises', 'StoreConflict', 'FailStored', 'FailVoted',
        'FinishThenFail', 'Savepoint', 'CommitSp', 'SavepointRaises', 'CommitSpRaises', 'CommitSpConflict',
        'CommitSpStoreRaises', 'BeginFails', 'AddWhileFailed', 'ModifyWhileFailed', 'ImportInTxn', 'Rollback']


BUDGET = {'committed-objects': 30000, 'new-objects': 28000, 'with-savepoint': 28000, 'one-object': 26000,
          'savepoint-commit-fails': 26000, 'begin-fails-late-add-import': 24000, 'rollback-after-second-savepoint': 16000}


def configs(q):
    new = cd.consts(Obj=('a', 'b'), Edges='EdgesChain', MaxCommit=1, MaxAct=3 if q else 4, MaxTail=1,
                    Ops=('add', 'own', 'rm') if q else ('add', 'own', 'rm', 'free'))
    pre = cd.consts(Obj=('a', 'b'), Edges='EdgesChain', Pre=('a',), MaxCommit=1, MaxOther=1, MaxAct=3, MaxTail=1,
                    Ops=('other', 'load', 'own', 'rm') if q else ('other', 'load', 'own', 'rm', 'add'))
    one = cd.consts(Obj=('a',), Edges='EdgesFlat', MaxCommit=2, MaxOther=0 if q else 1, MaxAct=3, MaxTail=1,
                    Ops=('add', 'load', 'close', 'own', 'rm', 'free') if q else ('add', 'load', 'close', 'own', 'rm', 'free', 'other'))
    sp = cd.consts(Obj=('a', 'b'), Edges='EdgesFlat', MaxSp=1, MaxCommit=1, MaxAct=4, MaxTail=1,
                   Ops=('add', 'sp', 'rm', 'close', 'own') if q else ('add', 'sp', 'rm', 'close', 'own', 'load'))
    # a commit on the savepoint path failing at each record of the copy loop of _commit_savepoint: >= 2 records flushed
    # by the savepoint (the root, the committed object a modified, the new object b), conflict raised by the real
    # storage for r or a (second connection) or an injected store failure at the record of r, a or b
    spc = cd.consts(Obj=('a', 'b'), Edges='EdgesFlat', Pre=('a',), MaxSp=1, MaxCommit=1, MaxOther=1, MaxAct=3 if q else 4, MaxTail=1,
                    Ops=('sp', 'other', 'own') if q else ('sp', 'other', 'own', 'load'))
    # the storage refusing tpc_begin (FileStorage: description > 65535 bytes) and the NEXT commit; Connection.add while
    # the transaction is in the failed state; importFile inside a transaction that is then aborted / fails
    late = cd.consts(Obj=('a', 'b'), Edges='EdgesFlat', Pre=('a',), MaxSp=1, MaxCommit=1 if q else 2, MaxAct=3, MaxTail=1,
                     Ops=('add', 'bf', 'awf', 'mwf', 'sp', 'imp') if q else ('add', 'bf', 'awf', 'mwf', 'sp', 'imp', 'rm', 'own'))
    # rollback to the first savepoint after a second one wrote a new object, then ownership
    rb = cd.consts(Obj=('a',), Edges='EdgesFlat', MaxSp=2, MaxCommit=1, MaxAct=5, MaxTail=1, Ops=('add', 'sp'))
    return [('new-objects', new), ('committed-objects', pre), ('one-object', one), ('with-savepoint', sp),
            ('savepoint-commit-fails', spc), ('begin-fails-late-add-import', late), ('rollback-after-second-savepoint', rb)]


def run(ctx):
    q = ctx.quick
    cov = K.Cover(ctx.pid, CLAUSES, FOCUS, DEVS)
    items = configs(q)
    kinds = ('mapping', 'file') if q else ('mapping', 'file', 'demo')
    # 2. the deviations of the code, exhibited by TLC and tried on the code
    dev = K.deviations(ctx, cov, kinds)
    # 1. the design (deviations cleared) + 3. conformance and clauses on the graphs of the model of the code as it is
    K.check_all(ctx, cov, items, dev, kinds, budget=BUDGET if q else None)
    if not q:
        # deeper programs (3 objects, 3 commits, all failure kinds, close/reopen, a second writer): seeded random behaviours
        big = cd.consts(Obj=('a', 'b', 'c'), Edges='EdgesChain', MaxCommit=3, MaxOther=2, MaxAct=6, MaxTail=3,
                        Ops=('add', 'load', 'close', 'own', 'rm', 'other', 'free'))
        K.simulate(ctx, cov, 'three-objects', big, dev, kinds, num=4000, depth=90)
    return K.finish(ctx, cov, NEED, RULE, dev)


RULE = ('tours through the state graphs TLC dumped for ZConn (model of the code as it is), planned so that every transition is '
        'replayed at least once on a real DB/Connection (PersistentMapping, PersistentList, VObj rotated over the objects; '
        'MappingStorage and FileStorage, thorough: DemoStorage too); after EVERY action (inside transaction.commit(): after '
        'tpc_begin, after each stored object, after commit, after tpc_vote) the projected real state - per object jar/oid, '
        '_p_changed, serial rank, cache membership, state; _registered_objects, _added, _creating, _modified, _needs_to_join, '
        'opened, MVCC snapshot; savepoint store; what a load would return; what a second connection sees; the records of the '
        'last storage transaction - is compared with the state TLC printed; distinct = distinct action sequence; non-trivial = '
        'the tour contains at least one commit outcome (Finish or one of the failure alternatives)')


def replay(ctx, data):
    return K.replay(ctx, data, CLAUSES, FOCUS, DEVS)
