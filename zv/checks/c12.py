"""C12 - savepoint rollback restores the savepoint state exactly, any number of times.

spec/ZConn.tla: the savepoint store (TmpStore: position, index, creating map, savepoint blob files), the state
tuple of every live savepoint, Savepoint, Rollback(k) (repeated, to earlier savepoints after later ones, through
an AbortSavepoint for a connection that joined after the savepoint), commit through the savepoint store (CommitSp),
conflict during that commit, a savepoint() / the savepoint commit() takes first raising part-way (SavepointRaises,
CommitSpRaises), abort.  Clauses: RollbackRestores (rollback-owner, rollback-value: right after
Rollback(k) ownership, value on access, root contents and blob bytes equal the snapshot taken at Savepoint(k)),
CommitStoresFinalStates / abort discards everything (stale, dirty-idle), NothingLeftBehind (leftover; the
replayer also checks that the TmpStore file is closed and the savepoint blob directory removed),
SavepointInvisible (action property; the replayer polls a second connection after every action).
See zv/checks/_conn.py for the procedure."""
from ..drivers import conn as cd
from . import _conn as K

CLAUSES = ('rollback-owner', 'rollback-value', 'stale', 'dirty-idle', 'serial', 'leftover')
DEVS = ('AliasCreating', 'SpBlobByName', 'ImportNotCreating')        # the deviations whose clauses are this property's
FOCUS = ('Rollback',)
NEED = ['Modify', 'Link', 'Unlink', 'AddExplicit', 'Load', 'Savepoint', 'Rollback', 'Begin', 'CommitSp', 'CommitSpConflict',
        'SavepointRaises', 'CommitSpRaises', 'CommitSpStoreRaises', 'ImportInTxn',
        'Store', 'Stored', 'Vote', 'Finish', 'Abort', 'OtherCommit']


def configs(q):
    two = cd.consts(Obj=('a', 'b'), Edges='EdgesFlat', MaxSp=2, MaxCommit=1, MaxAct=4, MaxTail=1,
                    Ops=('add', 'sp') if q else ('add', 'sp', 'load'))
    rep = cd.consts(Obj=('a',), Edges='EdgesFlat', MaxSp=2 if q else 3, MaxCommit=1, MaxAct=6, MaxTail=1,
                    Ops=('add', 'sp', 'load'))
    chain = cd.consts(Obj=('a', 'b'), Edges='EdgesChain', MaxSp=2, MaxCommit=1, MaxAct=4 if q else 5, MaxTail=1, Ops=('sp',))
    other = cd.consts(Obj=('a',) if q else ('a', 'b'), Edges='EdgesFlat', Pre=('a',), MaxSp=2, MaxCommit=1, MaxOther=1,
                      MaxAct=4, MaxTail=1, Ops=('sp', 'other', 'load'))
    blob = cd.consts(Obj=('k',) if q else ('a', 'k'), Blobs=('k',), Edges='EdgesBlob', MaxSp=2, MaxCommit=1, MaxAct=6 if q else 4,
                     MaxTail=1, Ops=('add', 'sp', 'load') if q else ('add', 'sp', 'load', 'free'))
    # a savepoint() / the savepoint commit() takes first raising part-way (an unpicklable value), then abort
    fail = cd.consts(Obj=('a', 'b'), Edges='EdgesFlat' if q else 'EdgesChain', MaxSp=2, MaxCommit=1, MaxAct=3 if q else 4, MaxTail=1,
                     Ops=('add', 'sp', 'own'))
    # importFile inside the transaction (its records go to the savepoint store), then rollback / abort / commit
    imp = cd.consts(Obj=('a', 'b'), Edges='EdgesFlat', MaxSp=2, MaxCommit=1, MaxAct=4 if q else 5, MaxTail=1, Ops=('sp', 'imp'))
    return [('two-savepoints', two), ('repeated-rollback', rep), ('reachability', chain), ('conflict-at-commit', other),
            ('blobs', blob), ('failing-savepoint', fail), ('import', imp)]


BUDGET = {'two-savepoints': 24000, 'repeated-rollback': 24000, 'reachability': 22000, 'conflict-at-commit': 22000, 'blobs': 16000,
          'failing-savepoint': 20000, 'import': 16000}


def run(ctx):
    q = ctx.quick
    cov = K.Cover(ctx.pid, CLAUSES, FOCUS, DEVS)
    items = configs(q)
    kinds = ('mapping', 'file') if q else ('mapping', 'file', 'demo')
    dev = K.deviations(ctx, cov, kinds, blobs=True)
    K.check_all(ctx, cov, items, dev, kinds, budget=BUDGET if q else None)
    if not q:
        # deeper programs: seeded random behaviours of configurations too large to dump
        big = cd.consts(Obj=('a', 'b', 'c'), Edges='EdgesChain', MaxSp=3, MaxCommit=3, MaxOther=1, MaxAct=9, MaxTail=3,
                        Ops=('add', 'load', 'sp', 'other', 'free'))
        K.simulate(ctx, cov, 'three-objects', big, dev, kinds, num=3000, depth=90)
        bigb = cd.consts(Obj=('a', 'k'), Blobs=('k',), Edges='EdgesBlob', MaxSp=3, MaxCommit=3, MaxAct=9, MaxTail=3,
                         Ops=('add', 'load', 'sp', 'free'))
        K.simulate(ctx, cov, 'blobs-deep', bigb, dev, kinds, num=2000, depth=90)
    return K.finish(ctx, cov, NEED, RULE, dev)


RULE = ('tours through the state graphs TLC dumped for ZConn (model of the code as it is), planned so that every transition is '
        'replayed at least once (quick tier: a seeded sample for the larger graphs) on a real DB/Connection (PersistentMapping, '
        'PersistentList, VObj rotated over the objects, Blob; MappingStorage and FileStorage, thorough: DemoStorage too; blob '
        'configurations on the blob-capable storages); after EVERY action the projected real state - objects, connection '
        'sets, TmpStore position/index/creating/savepoint blob files, the state tuple of every live savepoint and its '
        'validity, what a load would return for every object, what a second connection sees after a sync, the records of the '
        'last storage transaction, TmpStore file closed and blob directory gone when no savepoint store is open - is compared '
        'with the state TLC printed; RollbackRestores is evaluated by TLC against the ghost snapshot it took at Savepoint(k); '
        'distinct = distinct action sequence; non-trivial = the tour contains at least one Rollback')


def replay(ctx, data):
    return K.replay(ctx, data, CLAUSES, FOCUS, DEVS)
