"""C13 - blob data commits, aborts, undoes and packs together with its object record.

1. TLC checks the design (spec/ZBlob.tla with the three deviation constants cleared) exhaustively on small
   constants: FilesMatchRecords (NoViolation), UncommittedInvisible, SnapshotsReadable, NothingLeftBehind,
   CommittedFilesImmutable, PackRemovesExactly - for the mixin (FileStorage + blob directory) and the wrapper
   (BlobStorage over MappingStorage), once over everything a transaction can do (every Blob call, savepoints,
   every abort point, a racing writer) and once over histories (undo / redo incl. of a creation, pack at every tid).
2. With a deviation constant set to what the code does TLC exhibits the violation: AbortNeedsVote (F4),
   NonUndoPack (F15), SpbPerSerial (F3).  Each counterexample is replayed on the real code.  If the code follows
   it state by state the defect is established on this tree (reported with its structural signature) and the
   constant stays set for step 3; otherwise TLC re-evaluates the same calls with the constant cleared and the
   code must follow that.
3. Conformance: behaviours of that model - directed scenarios evaluated by TLC (ZBlobScript: every Blob call x
   every end of the commit x savepoint x second object x racing writer; undo / redo chains with every end; packs
   at every time with and without pack_keep_old), seeded random scenarios, and TLC -simulate walks under five
   scenario relations - are replayed through real DB / Connection / Blob objects.  After EVERY call the *.blob
   files (independent directory walk: oid, tid, md5, permission bits), <blobs>.old, dirty_oids, tmp/, the bytes
   read through a fresh and through one historical connection per committed tid, the bytes c1 shows and the
   storage's iterator are compared with the state TLC printed; the C13 verdict on a state (`viol`) is TLC's.
"""
import hashlib
import os
import random

from .. import clock, par, tlc
from ..drivers import blob as bd
from ..drivers import blob_scripts as bs

SPEC = 'MCZBlob'
DESIGN_INV = ['TypeOK', 'NoViolation', 'UncommittedInvisible', 'SnapshotsReadable', 'NothingLeftBehind', 'DerivedExact']
DESIGN_PROPS = ['CommittedFilesImmutable', 'PackRemovesExactly']
REPAIRED = dict(AbortNeedsVote=False, NonUndoPack=False, SpbPerSerial=False, ForeignAbortCleans=False, LateBookkeeping=False,
                CopyFailUntracked=False, StoreFaultUntracked=False, PackIgnoresInFlight=False, StoreFailLeaks=False, UndoTempLeaks=False, PackWipesOidDir=False)
FLAVOURS = ('mixin', 'wrapmap', 'wrapfile')
UNDO = ('mixin', 'wrapfile')          # flavours with DB.undo; 'wrapfile' has no pack in the model

# deviation constant -> (finding, flavours it can show on, relation and constants of the counterexample run, invariant)
DEVIATIONS = {
    'AbortNeedsVote': ('F4', ('mixin',), 'NextTxn', dict(NBlob=1, Atoms=('a',), MaxTid=4, MaxSp=1), 'NoFileOfAbortedTxn'),
    'NonUndoPack': ('F15', ('wrapmap',), 'NextHist', dict(NBlob=1, Atoms=('a',), MaxTid=5, MaxSp=1), 'NoMissingFile'),
    'SpbPerSerial': ('F3', FLAVOURS, 'NextTxn', dict(NBlob=1, Atoms=('a',), MaxTid=3, MaxSp=2), 'BytesAsWritten'),
    # BlobStorage (the wrapper): tpc_abort(foreign transaction) cleans all the same; dirty_oids handled after the
    # commit lock was released; a failing blob copy in undo() is not listed
    'ForeignAbortCleans': ('foreign-abort', ('wrapmap', 'wrapfile'), 'NextRace', dict(NBlob=1, Atoms=('a',), MaxTid=4, MaxSp=1), 'NoViolation'),
    'LateBookkeeping': ('late-bookkeeping', ('wrapmap', 'wrapfile'), 'NextRace', dict(NBlob=1, Atoms=('a',), MaxTid=5, MaxSp=1), 'NoViolation'),
    'CopyFailUntracked': ('failed-undo-copy', ('wrapfile',), 'NextRace', dict(NBlob=1, Atoms=('a',), MaxTid=5, MaxSp=1), 'NoViolation'),
}
DEVIATIONS.update({
    # _blob_storeblob lists the file only after rename + chmod; the wrapper's blob pack ignores a commit in progress
    'StoreFaultUntracked': ('failed-storeblob', FLAVOURS, 'NextRace', dict(NBlob=1, Atoms=('a',), MaxTid=4, MaxSp=1), 'NoViolation'),
    'StoreFailLeaks': ('tmp-working-copy', FLAVOURS, 'NextTxn', dict(NBlob=1, Atoms=('a',), MaxTid=5, MaxSp=1), 'NoViolation'),
    'UndoTempLeaks': ('tmp-undo-temp', ('mixin',), 'NextRace', dict(NBlob=1, Atoms=('a',), MaxTid=5, MaxSp=1), 'NoViolation'),
    'PackWipesOidDir': ('pack-wipes-oid-directory', ('mixin',), 'NextLink', dict(NBlob=1, Atoms=('a',), MaxTid=6, MaxSp=1), 'NoViolation'),
    'PackIgnoresInFlight': ('pack-during-commit', ('wrapmap',), 'NextRace', dict(NBlob=1, Atoms=('a',), MaxTid=5, MaxSp=1), 'NoViolation'),
})
# Connection / mixin-code deviations: the same calls and states on every flavour (one TLC run, replayed on each)
SAME_ON_ALL = ('SpbPerSerial', 'StoreFaultUntracked', 'StoreFailLeaks')
WRAPPERS = ('wrapmap', 'wrapfile')
WRONG = ('store', 'storeBlob', 'tpc_vote', 'tpc_finish', 'tpc_abort')
TEXT = {
    'file-of-aborted-transaction': 'a *.blob file of an aborted transaction remains in the blob directory',
    'revision-without-file': 'a committed blob revision has no blob file (reading it in its snapshot fails)',
    'file-of-removed-revision': 'a *.blob file remains whose revision the pack removed',
    'bytes-differ-from-written': 'the committed blob file does not hold the bytes the application had written',
    'committed-file-writable': 'a committed blob file has a write-permission bit',
    'file-removed-by-foreign-abort': 'tpc_abort(a transaction that is not being committed) removed the blob file of the transaction '
                                     'in progress, which then finished: committed revision without blob file',
    'file-removed-by-late-bookkeeping': 'the blob file of a committed revision was removed by the abort of ANOTHER transaction, whose '
                                        'dirty_oids bookkeeping ran after the commit lock had been released',
    'file-left-by-late-bookkeeping': 'a blob file of an aborted transaction remains: its dirty_oids entry was forgotten by the finish / '
                                     'abort bookkeeping of another transaction that ran after the commit lock had been released',
    'file-left-by-failed-storeblob': 'the <oid>/<tid>.blob that storeBlob had moved into place before it failed (os.chmod) remains after the abort',
    'file-removed-by-pack-wiping-oid-directory': 'pack removed the whole blob directory of an object that was unreachable at the pack time, '
                                                 'the file of a revision written after the pack time (whose record it keeps) included',
    'file-removed-by-pack-during-commit': 'a pack of the wrapper that ran while a commit was between storeBlob and tpc_finish took the '
                                          'uncommitted file for the newest one (or for garbage): a committed revision has no blob file',
    'working-copy-left-in-tmp': 'the working copy (tmp/BUC*) handed over to a storeBlob that failed remains in <blob_dir>/tmp for good',
    'undo-temp-left-in-tmp': 'the temporary file of an undo whose blob copy failed remains in <blob_dir>/tmp',
    'file-left-by-failed-undo-copy': 'the partly written <oid>/<undo tid>.blob of an undo() whose blob copy failed remains after the abort',
}

ASSUME = ['TLC results are exhaustive only within the stated constants (1 blob, 1 content atom, <= 2-3 transactions); the '
          'replayed behaviours use 3-4 blobs, 2 atoms, <= 10 transactions',
          'one writer connection c1 driven call by call, one second writer whose commits are atomic for c1 (the commit '
          'lock), readers on fresh and historical connections; pack and undo run while c1 is outside two-phase commit '
          '(C08 covers packing under concurrency)',
          'a commit is aborted at a phase by a second resource manager that fails there (transaction 5.x calls abort() on '
          'resources that have not voted, then tpc_abort() on all)',
          'pack times are whole-second boundaries, one transaction per second (fake clock)',
          'the packers are the ZPackOps transcriptions validated against the code by C07',
          'files under tmp/ that no object owns any more are counted, not judged (DESIGN notes on C13)',
          'third flavour BlobStorage(FileStorage without blob_dir): commit, abort at every phase, undo / redo / aborted undo '
          'through BlobStorage.undo are modelled and replayed; its pack (_packUndoing over a packed FileStorage) is not, and '
          'the write-permission bits of the copies BlobStorage.undo writes are compared but not judged',
          'fsync is switched off in the replays (durability is not part of C13)',
          'calls with a foreign transaction are made on the storage under test at every phase of a commit in progress; the '
          'racing second writer runs in a thread of its own that is stopped between the two statements of '
          'BlobStorage.tpc_abort / tpc_finish and let go where the behaviour says (Late): every position relative to c1\'s '
          'commit is a TLC behaviour; the I/O fault is one failing raw write (zv.faultfs) of the first blob copy in undo(); a '
          'temporary file FileStorage leaves in tmp/ on that fault is counted, not judged',
          'once a current revision has lost its blob file (reported) the rest of the behaviour is not replayed',
          'file handles: one reader or writer handle at a time is kept open across an abort or across another connection\'s '
          'commit and the next transaction boundary; commits are made with all handles closed (the code refuses otherwise)',
          'tmp/ is judged where the leftover is deterministic (a working copy handed to a storeBlob that failed, the temporary '
          'file of a failed undo copy) and only where the replay finds the file; other unowned files under tmp/ are counted',
          'blobs are unlinked from / relinked into the root outside savepoints; DB.undo undoes one transaction (one record per '
          'oid per transaction: undoMultiple is outside the model)',
          'c1 minimizes its cache at the end of each of its transactions (a Blob object activated while a stale savepoint '
          'file shadowed its committed file keeps that path: a consequence of F3 that depends on the cache, not judged apart)',
          'transaction, persistent, zodbpickle, zope.interface trusted as installed']


# ------------------------------------------------------------------------------------------------------------
# jobs (run in worker processes: each runs its own TLC with one worker and replays what TLC produced)

def _cfg(wd, name, c, next_, invariants=(), properties=(), view=None):
    path = os.path.join(wd, name + '.cfg')
    tlc.write_cfg(path, constants=bd.tla_consts(c), next_=next_, invariants=invariants, properties=properties, view=view)
    return path


def job_mc(a):
    name, c, next_, inv, props, workers, timeout, scratch = a
    wd = os.path.join(scratch, 'mc-' + name)
    os.makedirs(wd, exist_ok=True)
    r = tlc.run(SPEC, _cfg(wd, name, c, next_, inv, props, view='View'), workdir=wd, workers=workers, timeout=timeout,
                env=bs.JVM_ENV)
    return {'kind': 'mc', 'name': name, 'summary': r.summary(), 'violation': r.violation, 'trace': r.trace,
            'tail': r.output[-1500:] if not r.ok else ''}


def _opts(seed, i):
    # concretisation outside the model: byte length per content atom (one in four replays crosses the 64 KiB copy buffer)
    sizes = ({'a': 3, 'b': 5, 'c': 7}, {'a': 1, 'b': 4096, 'c': 2}, {'a': 65536, 'b': 70001, 'c': 9}, {'a': 1000, 'b': 1, 'c': 300})
    return {'sizes': sizes[(i + seed) % 4]}


def job_sim(a):
    import glob
    name, c, next_, num, depth, seed, scratch, optseed = a
    wd = os.path.join(scratch, 'sim-' + name)
    os.makedirs(os.path.join(wd, 'out'), exist_ok=True)
    r = tlc.run(SPEC, _cfg(wd, name, c, next_), workdir=wd, simulate='file=%s/out/tr,num=%d' % (wd, num), depth=depth,
                seed=seed, workers=1, timeout=900, env=bs.JVM_ENV)
    if not r.ok:
        raise tlc.TLCError('simulation %s: %s\n%s' % (name, r.violation, r.output[-2000:]))
    files = sorted(glob.glob(os.path.join(wd, 'out', 'tr_*')))
    res = []
    for i, f in enumerate(files):
        x = bd.replay_behaviour((f, c, os.path.join(wd, 'rp%d' % i), _opts(optseed, i)))
        x['origin'] = {'kind': 'simulate', 'name': name, 'index': i}
        res.append(x)
        os.remove(f)
    return {'kind': 'sim', 'name': name, 'flavour': c['Flavour'], 'consts': c, 'summary': dict(r.summary(), name='simulate-' + name),
            'results': res}


def job_scr(a):
    name, c, scripts, scratch, optseed = a
    wd = os.path.join(scratch, 'scr-' + name)
    behs, summ = bs.evaluate(scripts, c, wd)
    res = []
    for i, b in enumerate(behs):
        x = bd.replay_behaviour((b, c, os.path.join(wd, 'rp%d' % i), _opts(optseed, i)))
        x['origin'] = {'kind': 'script', 'name': name, 'index': i}
        res.append(x)
    return {'kind': 'scr', 'name': name, 'flavour': c['Flavour'], 'consts': c, 'summary': dict(summ, name='scripts-' + name),
            'results': res}


def _job(a):
    import time
    t0 = time.time()
    r = {'mc': job_mc, 'sim': job_sim, 'scr': job_scr}[a[0]](a[1])
    r['job_wall_s'] = round(time.time() - t0, 1)
    return r


# ------------------------------------------------------------------------------------------------------------
# scenarios

ENDS = ('finish', 'begin', 'store', 'vote')


def directed(flavour, quick=False, packs_only=False):
    """The matrix the property quantifies over, as call sequences (TLC skips what is not enabled).
    quick: a third of the undo x pack family (the packer transcription over histories with back-pointers is what TLC
    evaluates slowest); packs_only: the families that pack (for pack_keep_old)."""
    S = []
    P = []
    edits = {'create': lambda: bs.create(('a',)), 'create-empty': lambda: bs.create(()), 'rewrite': lambda: bs.rewrite(2, 'b'),
             'append': lambda: bs.append(2, 'b'), 'consume': lambda: bs.consume(2, 'b')}
    first = bs.create(('a',)) + bs.commit()                 # blob 2 exists (tid 3)
    for ename, edit in edits.items():
        for end in ENDS:
            for pmode in ('none', 'p-first', 'p-last'):
                for race in ('none', 'p', 'blob'):
                    if race == 'p' and pmode == 'none':
                        continue
                    if race == 'blob' and ename.startswith('create'):
                        continue
                    for sp in (False, True):
                        s = list(first)
                        body = edit()
                        if pmode == 'p-first':
                            body = bs.modify_p('v2') + body
                        elif pmode == 'p-last':
                            body = body + bs.modify_p('v2')
                        if sp:
                            body = body[:1] + bs.savepoint() + body[1:] + (bs.append(2, 'a') if not ename.startswith('create') else bs.append(3, 'a'))
                        s += body
                        if race == 'p':
                            s += bs.other(1, 'v2')
                        elif race == 'blob':
                            s += bs.other(2, 'a')
                        s += bs.commit(end)
                        # afterwards: the next transaction, an abort after the vote (which empties a stale dirty list), a pack
                        s += bs.rewrite(2, 'a') + bs.commit('vote' if end == 'store' else 'finish')
                        if len(S) % 4 == 0:
                            s += bs.pack(0)
                        S.append(s)
    # a consumeFile that fails (no such source) after the blob was written in the transaction, on a clean blob, on a
    # new blob, across a savepoint: the call must leave the blob as it was, whatever the commit does afterwards
    for end in ENDS:
        for pre in (bs.rewrite(2, 'b'), bs.append(2, 'b'), bs.consume(2, 'b'), bs.rewrite(2, 'b') + bs.append(2, 'a'), []):
            S.append(first + pre + bs.consume_fail(2) + bs.commit(end) + bs.append(2, 'a') + bs.commit())
            S.append(first + pre + bs.consume_fail(2) + bs.append(2, 'a') + bs.consume_fail(2) + bs.modify_p('v2') + bs.commit(end))
        S.append(first + bs.create(('b',)) + bs.consume_fail(3) + bs.commit(end) + bs.append(3, 'a') + bs.commit())
        S.append(first + bs.create(()) + bs.append(3, 'a') + bs.consume_fail(3) + bs.append(3, 'b') + bs.commit(end) + bs.commit())
        S.append(first + bs.rewrite(2, 'b') + bs.savepoint() + bs.consume_fail(2) + bs.append(2, 'a') + bs.consume_fail(2) + bs.commit(end))
        S.append(first + bs.rewrite(2, 'b') + bs.savepoint() + bs.append(2, 'a') + bs.consume_fail(2) + bs.rollback(1) + bs.consume_fail(2) + bs.commit(end))
    # 2PC calls with a foreign transaction at every phase of a commit in progress: rejected without effect
    for phase in ('begin', 'store', 'vote'):
        for m in WRONG:
            for end in ('finish', 'vote') + (('store',) if phase != 'vote' else ()):
                S.append(first + bs.rewrite(2, 'b') + bs.commit(end, at={phase: bs.wrong(m)}) + bs.append(2, 'a') + bs.commit())
        S.append(first + bs.create(('b',)) + bs.modify_p('v2') + bs.commit(at={phase: sum((bs.wrong(m) for m in WRONG), [])}) + bs.commit())
        if flavour in UNDO:
            S.append(first + bs.other(2, 'b') + bs.undo(0, at={phase: bs.wrong('tpc_abort') + bs.wrong('tpc_finish')}) + bs.undo(0))
    if flavour in WRAPPERS:
        # the second writer's abort / finish does its dirty_oids bookkeeping late: at every point of a commit of c1
        # (before it, at each phase, after it) x how c1's commit ends
        two = first + bs.create(('b',)) + bs.commit()
        for end2 in ('abort', 'finish'):
            for end in ('finish', 'vote', 'store'):
                for phase in ('begin', 'store', 'vote'):
                    if not (end == 'store' and phase == 'vote'):
                        S.append(two + bs.rewrite(3, 'b') + bs.other_tpc(2, 'a', end2) + bs.commit(end, at={phase: bs.late()}) + bs.append(3, 'a') + bs.commit())
                S.append(two + bs.rewrite(3, 'b') + bs.other_tpc(2, 'a', end2) + bs.late() + bs.commit(end) + bs.commit())
                S.append(two + bs.create(('a',)) + bs.other_tpc(2, 'a', end2) + bs.commit(end) + bs.late() + bs.rewrite(2, 'b') + bs.commit())
    # a file handle kept open across an abort / across another connection's commit and the next transaction boundary
    two_ = first + bs.create(('b',)) + bs.commit()
    for tail in (bs.rewrite(2, 'b') + bs.commit(), bs.append(2, 'a') + bs.commit('vote'), bs.close_all() + bs.consume(2, 'b') + bs.commit()):
        S.append(two_ + bs.open_write(2, 'b') + bs.abort_txn() + tail + bs.pack(0))
        S.append(two_ + bs.modify_p('v2') + bs.open_write(3, 'a') + bs.other(3, 'b') + bs.abort_txn() + tail)
        S.append(two_ + bs.open_read(2) + bs.other(2, 'b') + bs.boundary() + tail + bs.pack(0))
        S.append(two_ + bs.open_read(2) + bs.other(3, 'b') + bs.boundary() + bs.other(2, 'a') + bs.boundary() + tail)
        S.append(two_ + bs.modify_p('v2') + bs.open_read(2) + bs.other(2, 'b') + bs.abort_txn() + bs.close_all() + tail)
        S.append(two_ + bs.open_write(2, 'b') + bs.close_all() + bs.open_read(3) + bs.close_all() + bs.commit() + bs.open_read(2) + bs.boundary() + tail)
    # the first storeBlob of a commit meets a failing os.chmod after the file was moved into place
    for pre in (bs.rewrite(2, 'b'), bs.create(('b',)), bs.modify_p('v2') + bs.append(2, 'b'), bs.rewrite(2, 'b') + bs.savepoint() + bs.create(('a',))):
        S.append(first + pre + bs.commit_fault() + bs.append(2, 'a') + bs.commit() + bs.commit_fault() + bs.pack(0))
    # a blob taken out of the root object, later rewritten and put back by the connection that still holds it; packs in between
    for t in range(-3, 1):
        P.append(first + bs.unlink(2) + bs.commit() + bs.rewrite(2, 'b') + bs.relink(2) + bs.commit() + bs.pack(t) + bs.append(2, 'a') + bs.commit() + bs.pack(0))
        P.append(first + bs.unlink(2) + bs.commit() + bs.other(2, 'b') + bs.pack(t) + bs.relink(2) + bs.commit() + bs.pack(t) + bs.pack(0))
        P.append(two_ + bs.unlink(2) + bs.unlink(3) + bs.commit() + bs.pack(t) + bs.relink(3) + bs.rewrite(3, 'a') + bs.commit() + bs.pack(0))
    if flavour == 'wrapmap':
        # a pack of the wrapper while a commit is between storeBlob and tpc_finish, for every end of that commit
        for end in ('finish', 'vote', 'store'):
            for phase in ('store', 'vote'):
                if not (end == 'store' and phase == 'vote'):
                    for t in (0, -1):
                        P.append(two_ + bs.other(2, 'b') + bs.rewrite(2, 'a') + bs.commit(end, at={phase: bs.pack_during(t)}) + bs.append(3, 'a') + bs.commit())
                        P.append(two_ + bs.create(('a',)) + bs.commit(end, at={phase: bs.pack_during(t)}) + bs.append(3, 'a') + bs.commit())
    if flavour in UNDO:
        # one write of the blob copy inside undo() fails; afterwards the same undo succeeds
        S.append(first + bs.other(2, 'b') + bs.undo_copy_fail(0) + bs.undo(0) + bs.undo_copy_fail(0) + bs.undo(0) + bs.append(2, 'a') + bs.commit())
        S.append(first + bs.undo_copy_fail(0) + bs.undo(0) + bs.undo_copy_fail(0) + bs.undo(0))
        S.append(first + bs.create(('b',)) + bs.commit() + bs.rewrite(2, 'b') + bs.append(3, 'a') + bs.commit() + bs.undo_copy_fail(0) + bs.undo(0, 'vote') + bs.undo(0))
    # savepoints: rollbacks to every savepoint, twice, new blobs created and un-created, then every end
    for end in ENDS:
        for k in (1, 2):
            S.append(first + bs.append(2, 'b') + bs.savepoint() + bs.rewrite(2, 'b') + bs.savepoint() + bs.rollback(k) + bs.commit(end) + bs.append(2, 'a') + bs.commit())
            S.append(first + bs.modify_p('v2') + bs.savepoint() + bs.consume(2, 'b') + bs.savepoint() + bs.rollback(k) + bs.append(2, 'a') + bs.commit(end))
            S.append(bs.create(('a',)) + bs.savepoint() + bs.create(('b',)) + bs.append(2, 'b') + bs.savepoint() + bs.rollback(k) + bs.rollback(1) + bs.create(('b',)) + bs.commit(end) + bs.commit())
        S.append(first + bs.rewrite(2, 'b') + bs.savepoint() + bs.abort_txn() + bs.append(2, 'b') + bs.commit(end))
    if flavour in UNDO:
        # undo / redo of a change and of a creation, each end of the undo transaction; an undo that fails after the
        # blob file was copied (P changed later); an undo racing with c1
        base = first + bs.other(2, 'b') + bs.other(1, 'v2')       # tids 3 (create), 4 (rewrite), 5 (P)
        for end in ENDS:
            S.append(base + bs.undo(-1, end) + bs.undo(0, end) + bs.undo(0) + bs.pack(-1) + bs.pack(0))
            S.append(first + bs.undo(0, end) + bs.undo(0, end) + bs.undo(0) + bs.undo(0) + bs.pack(-2) + bs.pack(0))
            S.append(first + bs.rewrite(2, 'b') + bs.modify_p('v2') + bs.commit() + bs.other(1, 'v1') + bs.undo(-1, end) + bs.rewrite(2, 'a') + bs.commit('vote') + bs.pack(0))
            S.append(base + bs.append(2, 'a') + bs.undo(-1, end) + bs.commit() + bs.pack(0))
            # two blobs changed by one transaction, undone / redone together; the undo aborted after undo() ran
            two = bs.create(('a',)) + bs.create(('b',)) + bs.commit() + bs.rewrite(2, 'b') + bs.append(3, 'a') + bs.commit()
            S.append(two + bs.undo(0, end) + bs.undo(0) + bs.undo(0, end) + bs.undo(-3, end) + bs.append(2, 'a') + bs.commit())
            S.append(two + bs.undo(-1, end) + bs.undo(0, end) + bs.other(3, 'b') + bs.undo(-1, end) + bs.undo(0))
            S.append(two + bs.rewrite(2, 'a') + bs.undo(0, end) + bs.commit() + bs.undo(-1, end) + bs.undo(0))
        for k in range(0, 4):
            for t in range(-3, 1):
                if quick and (k + t) % 3:
                    continue
                P.append(base + bs.undo(-1) + bs.undo(0) + bs.undo(-k) + bs.pack(t) + bs.append(2, 'a') + bs.commit() + bs.undo(0) + bs.pack(0))
                P.append(first + bs.undo(0) + bs.create(('b',)) + bs.commit() + bs.undo(-k) + bs.pack(t) + bs.pack(0) + bs.rewrite(3, 'a') + bs.commit())
    # packs at every time over a history of rewrites by both writers, repeated packs, commits afterwards
    hist = first + bs.other(2, 'b') + bs.append(2, 'a') + bs.commit() + bs.create(('b',)) + bs.commit() + bs.other(3, 'a')
    for t in range(-5, 1):
        P.append(hist + bs.pack(t) + bs.rewrite(2, 'a') + bs.commit() + bs.pack(t) + bs.pack(0) + bs.other(2, 'b') + bs.pack(-1))
        P.append(hist + bs.pack(t) + bs.pack(0) + bs.pack(-2))
    for T in (1, 2, 9):
        P.append(hist + bs.pack(T) + bs.pack(T) + bs.rewrite(3, 'b') + bs.commit())
    return P if packs_only else S + P


def random_script(rng, flavour, nblob):
    s = []
    blobs = list(range(2, nblob + 2))
    X = ('a', 'b')

    def edit():
        r = rng.random()
        b = rng.choice(blobs[:3])
        if r < 0.22:
            return bs.create(rng.choice(((), ('a',), ('b',))))
        if r < 0.42:
            return bs.rewrite(b, rng.choice(X))
        if r < 0.64:
            return bs.append(b, rng.choice(X))
        if r < 0.74:
            return bs.consume(b, rng.choice(X))
        if r < 0.78:
            return rng.choice((bs.open_write(b, rng.choice(X)), bs.open_read(b))) + rng.choice(([], bs.close_all(), bs.other(b, rng.choice(X)) + bs.boundary()))
        if r < 0.86:
            return bs.consume_fail(b)
        return bs.modify_p(rng.choice(('v1', 'v2')))
    s += bs.create(rng.choice((('a',), ('b',)))) + bs.commit()
    for _ in range(rng.randint(2, 4)):
        for _ in range(rng.randint(1, 3)):
            s += edit()
        if rng.random() < 0.35:
            for _ in range(rng.randint(1, 2)):
                s += bs.savepoint()
                for _ in range(rng.randint(0, 2)):
                    s += edit()
            if rng.random() < 0.6:
                s += bs.rollback(rng.randint(1, 2))
                if rng.random() < 0.5:
                    s += edit()
        if rng.random() < 0.4:
            s += bs.other(rng.choice([1] + blobs[:2]), rng.choice(X + ('v1', 'v2')))
        r = rng.random()
        if flavour in WRAPPERS and rng.random() < 0.15:
            s += bs.other_tpc(rng.choice(blobs[:2]), rng.choice(X), rng.choice(('abort', 'finish')))
        at = {}
        for phase in ('begin', 'store', 'vote'):
            if rng.random() < 0.12:
                at[phase] = bs.wrong(rng.choice(WRONG))
            elif flavour in WRAPPERS and rng.random() < 0.12:
                at[phase] = bs.late()
        if flavour == 'wrapmap' and rng.random() < 0.1:
            at.setdefault(rng.choice(('store', 'vote')), []).extend(bs.pack_during(-rng.randint(0, 2)))
        if r < 0.08:
            s += bs.abort_txn()
        elif r < 0.12:
            s += bs.close_all() + bs.commit_fault()
        else:
            s += bs.close_all()
            s += bs.commit('finish' if r < 0.6 else rng.choice(ENDS[1:]), at=at)
        s += bs.late()
        r = rng.random()
        if r < 0.25 and flavour in UNDO:
            if rng.random() < 0.15:
                s += bs.undo_copy_fail(-rng.randint(0, 2))
            s += bs.undo(-rng.randint(0, 2), 'finish' if rng.random() < 0.7 else rng.choice(ENDS[1:]))
        elif r < 0.45:
            s += bs.pack(-rng.randint(0, 3) if rng.random() < 0.85 else rng.randint(1, 9))
        elif r < 0.6:
            s += bs.other(rng.choice([1] + blobs[:2]), rng.choice(X + ('v1', 'v2')))
    return s


def to_script(sig):
    """the canonical action list of a behaviour ('Rewrite(2,a)' ...) as script entries with concrete arguments"""
    out = []
    for t in sig:
        name, _, rest = t.partition('(')
        args = [x for x in rest.rstrip(')').split(',') if x != ''] if rest.rstrip(')') else []
        if name == 'Init':
            continue
        if name in ('StoreOK', 'StoreFail', 'UStoreOK', 'UStoreFail'):
            out.append({'a': 'Store'})
        elif name == 'CreateBlob':
            c = rest.rstrip(')').split(',', 1)[1].strip('<>')
            out.append({'a': name, 'b': int(args[0]), 'c': tuple(x for x in c.split(',') if x)})
        elif name in ('Rewrite', 'Append', 'ConsumeFile'):
            out.append({'a': name, 'b': int(args[0]), 'x': args[1]})
        elif name == 'ConsumeFail':
            out.append({'a': name, 'b': int(args[0])})
        elif name == 'ModifyP':
            out.append({'a': name, 'v': args[0]})
        elif name == 'Rollback':
            out.append({'a': name, 'k': int(args[0])})
        elif name == 'OtherCommit':
            out.append({'a': name, 'o': int(args[0]), 'x': args[1]})
        elif name == 'UBegin':
            out.append({'a': name, 't': int(args[0])})
        elif name == 'Wrong':
            out.append({'a': name, 'm': args[0]})
        elif name == 'PackDuring':
            out.append({'a': name, 'T': int(args[0])})
        elif name == 'OpenWrite':
            out.append({'a': name, 'b': int(args[0]), 'x': args[1]})
        elif name in ('OpenRead', 'Unlink', 'Relink'):
            out.append({'a': name, 'b': int(args[0])})
        elif name in ('OtherAbort', 'OtherFinish'):
            out.append({'a': name, 'b': int(args[0]), 'x': args[1]})
        elif name == 'Pack':
            out.append({'a': name, 'T': int(args[0])})
        else:
            out.append({'a': name})
    return out


# ------------------------------------------------------------------------------------------------------------
# verdicts

class _R:
    """a TLC run made in a worker, for ctx.add_tlc"""

    def __init__(self, s):
        self.s = s
        self.distinct = s.get('distinct', 0)
        self.states_generated = s.get('states_generated', 0)

    def summary(self):
        return {k: v for k, v in self.s.items() if k != 'name'}


def _where(detail):
    import re
    d = detail.split(':')[0]
    return re.sub(r'\[[^\]]*\]', '[]', d)[:60]


def _first(cov, sig):
    """every signature is reported once per run (with its first occurrence in job order) and counted"""
    key = tuple(sorted(sig.items()))
    cov['signatures'][key] = cov['signatures'].get(key, 0) + 1
    return cov['signatures'][key] == 1


def judge(ctx, out, cov):
    flavour, c = out['flavour'], out['consts']
    for r in out['results']:
        cov['behaviours'] += 1
        cov['steps'] += r['steps']
        h = hashlib.sha1((flavour + '|' + '|'.join(r['sig'])).encode()).hexdigest()[:16]
        cov['_distinct'].add(h)
        a = r['actions']
        if r['txns'] >= 2 and (a.get('TpcAbort', 0) or a.get('Pack', 0) or a.get('UBegin', 0) or a.get('Rollback', 0)):
            cov['_nontrivial'].add(h)
        for k, v in a.items():
            cov['actions'][flavour][k] = cov['actions'][flavour].get(k, 0) + v
        cov['tmp_files_seen_max'] = max(cov['tmp_files_seen_max'], r['tmp_seen'])
        cov['stray_files_max'] = max(cov['stray_files_max'], r['stray'])
        if len(cov['samples']) < 4 and len(r['sig']) >= 12 and (a.get('Pack') or a.get('Rollback')) and not r['mismatch']:
            cov['samples'].append(r['sig'][:40])
        rep = {'flavour': flavour, 'consts': c, 'script': to_script(r['mismatch']['prefix'] if r['mismatch'] else r['sig']),
               'origin': r['origin']}
        mm = r['mismatch']
        if mm:
            cov['mismatches'] += 1
            sig = {'flavour': flavour, 'action': mm['action'], 'what': mm['what'], 'where': _where(mm['detail'][0])}
            if _first(cov, sig):
                ctx.violation(sig, '%s: the code diverges from ZBlob at step %d %s(%s) [%s]: %s   after: %s' % (
                    flavour, mm['step'], mm['action'], ','.join(mm['args']), mm['what'], '; '.join(mm['detail'][:3]),
                    ' '.join(mm['prefix'][-25:])), replay=rep)
        for v in r['viol']:
            cov['property_violations'][v['kind']] = cov['property_violations'].get(v['kind'], 0) + 1
            sig = {'flavour': flavour, 'inv': v['inv'], 'kind': v['kind']}
            if _first(cov, sig):
                ctx.violation(sig, '%s: %s - state reached by the real code (conforming to ZBlob call by call) after: %s' % (
                    flavour, TEXT.get(v['kind'], v['kind']), ' '.join(v['prefix'][-25:])),
                    replay=dict(rep, script=to_script(v['prefix'])))


def design_jobs(q, sc):
    """1. the design (deviation constants cleared), exhaustive on small constants"""
    small = dict(NBlob=1, Atoms=('a',), MaxLen=2)
    jobs = []
    for fl in FLAVOURS:
        rc = dict(REPAIRED, **small)
        if fl == 'mixin':
            # (with the deviation constants cleared the two flavours differ in Pack and Undo only, which NextTxn lacks)
            jobs.append(('mc', ('design-%s-txn' % fl, bd.consts(fl, MaxTid=4, MaxSp=1, **rc), 'NextTxn', DESIGN_INV, DESIGN_PROPS, 3, 1500, sc)))
            jobs.append(('mc', ('design-%s-sp2' % fl, bd.consts(fl, MaxTid=3, MaxSp=2, **rc), 'NextTxn', DESIGN_INV, DESIGN_PROPS, 2, 1500, sc)))
        jobs.append(('mc', ('design-%s-hist' % fl, bd.consts(fl, MaxTid=4 if q else 5, MaxSp=1, KeepOld=(fl == 'mixin'), **rc), 'NextHist',
                            DESIGN_INV, DESIGN_PROPS, 3, 3000, sc)))
        jobs.append(('mc', ('design-%s-race' % fl, bd.consts(fl, MaxTid=5 if q else 6, MaxSp=1, **rc), 'NextRace',
                            DESIGN_INV, DESIGN_PROPS, 3, 3000, sc)))
        if not q:
            jobs.append(('mc', ('design-%s-hist-nopack' % fl, bd.consts(fl, MaxTid=6, MaxSp=1, **rc), 'NextHistNoPack',
                                DESIGN_INV, DESIGN_PROPS, 3, 3000, sc)))
            if fl == 'mixin':
                jobs.append(('mc', ('design-%s-txn2' % fl, bd.consts(fl, MaxTid=4, MaxSp=2, **dict(rc, Atoms=('a', 'b'))), 'NextTxn',
                                    DESIGN_INV[:-1], DESIGN_PROPS, 4, 3000, sc)))
    return jobs


def cex_steps(trace):
    steps = [{'action': s['action'], 'args': s['args'], 'state': s['state']} for s in trace]
    steps[0]['action'] = 'Init'
    return steps


def run(ctx):
    clock.install()
    bd.no_fsync()
    q = ctx.quick
    sc = ctx.scratch
    seed = ctx.seed
    small = dict(NBlob=1, Atoms=('a',), MaxLen=2)

    # ---- 2. the deviations: TLC's counterexample with the constant set, replayed on this tree ------------------
    jobs = []
    shared = {}          # (deviation that does not depend on the storage) -> the flavours that replay the one counterexample
    for dev, (fid, flavours, next_, kc, inv) in DEVIATIONS.items():
        for fl in flavours:
            if dev in SAME_ON_ALL and fl != flavours[0]:
                shared.setdefault(dev, []).append(fl)
                continue
            c = bd.consts(fl, **dict(REPAIRED, **dict(kc, **{dev: True})))
            jobs.append(('mc', ('cex-%s-%s' % (fid, fl), c, next_, [inv], [], 1, 300, sc)))
    ncex = len(jobs)
    jobs += design_jobs(q, sc)                   # (the exhaustive runs of the design do not wait for the outcome)
    as_code = {fl: dict(REPAIRED) for fl in FLAVOURS}
    cov = _new_cov()
    cexs = {}
    repaired_jobs = []
    first = par.pmap(_job, jobs)
    design_out = first[ncex:]
    replays = []
    for (kind, a), r in zip(jobs[:ncex], first[:ncex]):
        name, c = a[0], a[1]
        dev = next(d for d in DEVIATIONS if c[d])
        inv = DEVIATIONS[dev][4]
        ctx.add_tlc(name, _R(r['summary']))
        if r['violation'] != inv:
            raise tlc.TLCError('%s: with %s = TRUE TLC should exhibit a violation of %s, got %s\n%s' % (
                name, dev, inv, r['violation'], r['tail']))
        replays.append((name, c, r))
        for fl in shared.get(dev, ()):
            replays.append(('cex-%s-%s' % (DEVIATIONS[dev][0], fl), dict(c, Flavour=fl), r))
    for name, c, r in replays:
        dev = next(d for d in DEVIATIONS if c[d])
        x = bd.replay_behaviour((cex_steps(r['trace']), c, os.path.join(sc, 'rp-' + name), {}))
        follows = x['mismatch'] is None and x['steps'] == len(r['trace'])
        cexs[name] = {'deviation': dev, 'finding': DEVIATIONS[dev][0], 'flavour': c['Flavour'], 'calls': x['sig'],
                      'code_follows': 'as the code is' if follows else None, 'violations': [v['kind'] for v in x['viol']]}
        if follows:
            as_code[c['Flavour']][dev] = True
            x['origin'] = {'kind': 'counterexample', 'name': name, 'index': 0}
            judge(ctx, {'flavour': c['Flavour'], 'consts': c, 'results': [x]}, cov)
        else:
            cexs[name]['diverged'] = x['mismatch'] and x['mismatch']['detail'][:2]
            c2 = dict(c, **{dev: False})
            repaired_jobs.append(('scr', ('rep-' + name, c2, [to_script(_sig_of(r['trace']))], sc, seed)))
    # the same calls under the repaired constant: the code must follow that instead
    for (kind, a), out in zip(repaired_jobs, par.pmap(_job, repaired_jobs)):
        ctx.add_tlc(out['summary']['name'], _R(out['summary']))
        name = a[0][4:]
        ok = all(r['mismatch'] is None for r in out['results'])
        cexs[name]['code_follows'] = 'repaired' if ok else 'neither'
        if ok:
            judge(ctx, out, cov)
        else:
            # neither: something else is wrong on the way; conformance runs against the model of the code as it was
            # when the check was built and reports where the code leaves it
            as_code[out['flavour']][cexs[name]['deviation']] = True

    # ---- 3. conformance ---------------------------------------------------------------------------------------
    jobs = []
    nsim = 16 if q else 700
    nrand = 100 if q else 3000
    for fl in FLAVOURS:
        for keep in ((False, True) if fl == 'mixin' else (False,)):
            c = bd.consts(fl, NBlob=3, MaxTid=10, MaxSp=2, KeepOld=keep, **as_code[fl])
            tag = fl + ('-keepold' if keep else '')
            rels = {'mixin': ['NextCommit', 'NextAbort', 'NextSp', 'NextPack', 'NextUndo'],
                    'wrapmap': ['NextCommit', 'NextAbort', 'NextSp', 'NextPack'],
                    'wrapfile': ['NextAbort', 'NextUndo']}[fl]
            for rel in rels:
                n = nsim // 3 if rel == 'NextPack' else nsim
                if keep and rel not in ('NextPack', 'NextUndo'):
                    continue
                for part in range(1 if q else 4):
                    jobs.append(('sim', ('%s-%s-%d' % (tag, rel, part), c, rel, max(4, n // (1 if q else 4)), 45 if q else 60,
                                         seed * 1009 + 31 * part + len(rel) + (7 if keep else 0), sc, seed + part)))
            c4 = dict(c, NBlob=4, MaxTid=14)
            d = directed(fl, q, packs_only=keep)
            if fl in WRAPPERS and q:
                # quick tier: what the wrappers add - BlobStorage.undo, its abort / finish bookkeeping, its pack - in
                # full; of the Connection-level matrix, which does not depend on the storage, a third / a half
                own = ('UBegin', 'UStoreCopyFail', 'Wrong', 'OtherAbort', 'OtherFinish', 'Late', 'Pack')
                und = [x for x in d if any(e['a'] in own for e in x)]
                d = und + [x for x in d if x not in und][::3 if fl == 'wrapfile' else 2]
            rng = random.Random('%s/%d/%s' % (fl, seed, keep))
            rs = [random_script(rng, fl, 4) for _ in range(nrand * 2 // 5 if keep else nrand // 2 if fl == 'wrapfile' else nrand * 7 // 10 if fl == 'wrapmap' else nrand)]
            allscr = [('dir', d), ('rnd', rs)]
            for kind, scripts in allscr:
                nchunk = max(1, round(len(scripts) / (75 if q else 150)))
                for k in range(nchunk):
                    part = scripts[k::nchunk]
                    if part:
                        jobs.append(('scr', ('%s-%s-%d' % (tag, kind, k), c4, part, sc, seed + k)))
    # long jobs first
    jobs.sort(key=lambda j: (j[0] != 'mc', 'NextPack' not in j[1][0]))
    results = par.pmap(_job, jobs)
    jobs, results = [('mc', (o['name'],)) for o in design_out] + jobs, design_out + results
    design = {}
    if os.environ.get('ZV_C13_TIMING'):
        for (kind, a), out in zip(jobs, results):
            print('job %-4s %-34s %6.1fs  tlc %6.1fs  behaviours %s' % (kind, a[0], out['job_wall_s'], out['summary']['wall_s'],
                                                                    len(out.get('results', ()))))
    for (kind, a), out in zip(jobs, results):
        if kind == 'mc':
            ctx.add_tlc(out['name'], _R(out['summary']))
            if out['violation']:
                raise tlc.TLCError('%s: the design (deviation constants cleared) violates %s\n%s' % (out['name'], out['violation'], out['tail']))
            design[out['name']] = out['summary']
        else:
            ctx.add_tlc(out['summary']['name'], _R(out['summary']))
            cov['runs'][out['name']] = len(out['results'])
            judge(ctx, out, cov)
    # vacuity: every action of the specification was replayed on each flavour it applies to
    for fl in FLAVOURS:
        need = [x for x in bd.ALL_ACTIONS if (fl in UNDO or not x.startswith('U')) and (fl != 'wrapfile' or x != 'Pack')
                and (fl in WRAPPERS or x not in ('OtherAbort', 'OtherFinish', 'Late'))
                and (x != 'Late' or as_code[fl]['LateBookkeeping']) and (x != 'PackDuring' or (fl == 'wrapmap' and as_code[fl]['PackIgnoresInFlight']))]      # (no late turn in the repaired model)
        miss = [x for x in need if not cov['actions'][fl].get(x)]
        if miss and not cov['mismatches']:
            raise RuntimeError('%s: actions never replayed: %s' % (fl, miss))
    return ctx.finish({
        'evaluations': cov['behaviours'],
        'distinct_nontrivial': len(cov['_nontrivial']),
        'distinct_behaviours': len(cov['_distinct']),
        'steps_compared': cov['steps'],
        'rule': 'behaviours of ZBlob (directed call sequences and seeded random call sequences evaluated by TLC through '
                'ZBlobScript, TLC -simulate walks under NextCommit / NextAbort / NextSp / NextPack / NextUndo, TLC counterexamples) '
                'replayed through real DB / Connection / Blob objects on FileStorage+blob_dir (pack_keep_old off and on), on '
                'BlobStorage(MappingStorage) and on BlobStorage(FileStorage); distinct = distinct (flavour, call sequence); non-trivial = at least two committed '
                'transactions and an aborted commit, a pack, an undo or a savepoint rollback; after every call files / old / '
                'dirty_oids / tmp / reads through a fresh and per-tid historical connections / c1 views / iterator are compared '
                'with the TLC state',
        'traces_validated_against_impl': cov['behaviours'],
        'actions_replayed': cov['actions'],
        'model_of_this_tree': as_code,
        'tlc_counterexamples_as_code': cexs,
        'design_runs': design,
        'property_violation_states': cov['property_violations'],
        'occurrences_per_signature': {' '.join('%s=%s' % kv for kv in k): n for k, n in sorted(cov['signatures'].items())},
        'tmp_files_seen_max': cov['tmp_files_seen_max'],
        'stray_files_max': cov['stray_files_max'],
        'behaviours_per_source': cov['runs'],
        'behaviours_diverging': cov['mismatches'],
        'samples': cov['samples'] or [list(cexs.values())[0]['calls']],
        'exhaustive': False,
    }, ASSUME)


def _sig_of(trace):
    out = []
    for s in bd.load_behaviour(cex_steps(trace)):
        out.append('%s(%s)' % (s['name'], ','.join(bd._show(a) for a in s['args'])))
    return out


def _new_cov():
    return {'behaviours': 0, 'steps': 0, '_distinct': set(), '_nontrivial': set(), 'actions': {fl: {} for fl in FLAVOURS},
            'samples': [], 'property_violations': {}, 'tmp_files_seen_max': 0, 'stray_files_max': 0, 'runs': {},
            'signatures': {}, 'mismatches': 0}


def replay(ctx, data):
    """./check C13 --replay FILE: TLC re-evaluates the recorded calls (ZBlobScript), the code replays them."""
    clock.install()
    bd.no_fsync()
    rp = data['replay']
    c = rp['consts']
    c['Atoms'] = tuple(c['Atoms'])
    script = [dict(e, c=tuple(e['c'])) if 'c' in e else e for e in rp['script']]
    behs, summ = bs.evaluate([script], c, os.path.join(ctx.scratch, 'replay'))
    r = bd.replay_behaviour((behs[0], c, os.path.join(ctx.scratch, 'replay-rp'), {}))
    rc = 0
    print('calls: ' + ' '.join(r['sig']))
    if r['mismatch']:
        mm = r['mismatch']
        print('replayed: the code diverges from ZBlob at step %d %s(%s) [%s]:' % (mm['step'], mm['action'], ','.join(mm['args']), mm['what']))
        for d in mm['detail']:
            print('   ' + d)
        rc = 1
    for v in r['viol']:
        print('replayed: %s [%s/%s] at step %d %s - the code conforms to ZBlob (as the code is) up to there' % (
            TEXT.get(v['kind'], v['kind']), v['inv'], v['kind'], v['step'], v['action']))
        rc = 1
    if not rc:
        print('replayed %d calls: every state agrees with ZBlob and no state violates C13' % r['steps'])
    return rc
