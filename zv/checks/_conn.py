"""Shared body of the checks decided on spec/ZConn.tla (C11, C12).

1. TLC checks the design (the four deviation constants cleared) on the check's configurations: every clause
   of the property is an invariant / action property of the specification.
2. For each deviation constant TLC exhibits a violation with the constant set to the behaviour of the code;
   the counterexample is replayed on the real code.  If the code follows it into the violating state the
   defect is established (reported with a structural signature) and the constant stays set for step 3;
   otherwise the repaired behaviour is the model of this tree.
3. TLC dumps the state graph of the model of the code as it is; tours covering every transition (a seeded
   sample in the quick tier for the larger graphs) are replayed on real connections over the bundled storages:
   conformance of the projected real state with the state TLC printed after every action, and - on top - the
   clauses TLC marked as violated in a state (`obs.mon`) are reported when the real code is in that state."""
import concurrent.futures
import hashlib
import os
import random
import time

from .. import par, tlaparse, tlc
from ..drivers import conn as cd
from ..drivers import conn_graph as cg

SPEC = 'MCZConn'
INVARIANTS = ['TypeOK', 'ObsDerived', 'NewDisowned', 'AbortRestores', 'CleanAfterCommit', 'NoStateAcrossReuse',
              'CloseOnlyOutsideTxn', 'RollbackRestores']
PROPERTIES = ['CommittedTogether', 'RollbackRestoresAct', 'SavepointInvisible', 'CommitStoresFinalStates']
GRAPH_INVARIANTS = ['TypeOK', 'ObsDerived', 'CloseOnlyOutsideTxn']
GRAPH_PROPERTIES = ['SavepointInvisible']

ASSUME = ['TLC results are exhaustive only within the stated constants (objects, values, link shapes, savepoints, commits, '
          'application actions per transaction)',
          'the C implementation of persistent (cPersistence, cPickleCache: invalidate() empties the list it is given) and '
          'the transaction package are trusted as installed; the cache never evicts (4 objects, default size)',
          'a failing commit is followed by transaction.abort() (the caller\'s duty); the specification treats it as a stutter '
          'and the replayer checks that it is one',
          'an unpicklable value sits at the end of the object\'s state (every child reference is pickled before it)',
          'once a clause of the property is violated in a state the behaviour is not explored further (what the code does '
          'with a dangling or emptied object is outside the specification)',
          'the data of a blob that was disowned after a store belongs to the store (ZODB hands blob files over): not judged']


def to_tla(v):
    """a parsed TLC value back to text that tlaparse.parse_value reads to an equal value"""
    if isinstance(v, bool):
        return 'TRUE' if v else 'FALSE'
    if isinstance(v, int):
        return str(v)
    if isinstance(v, str):
        return '"%s"' % v
    if isinstance(v, (frozenset, set)):
        return '{' + ', '.join(sorted(to_tla(x) for x in v)) + '}'
    if isinstance(v, (tuple, list)):
        return '<<' + ', '.join(to_tla(x) for x in v) + '>>'
    if isinstance(v, dict):
        if not v:
            return '<<>>'
        return '(' + ' @@ '.join('%s :> %s' % (to_tla(k), to_tla(x)) for k, x in v.items()) + ')'
    raise TypeError(type(v))


def cfg(ctx, name, c, invariants=(), properties=()):
    path = os.path.join(ctx.scratch, name + '.cfg')
    tlc.write_cfg(path, constants=cd.tla_consts(c), invariants=invariants, properties=properties)
    return path


def with_dev(c, dev):
    return dict(c, **{k: bool(dev.get(k)) for k in cd.DEVIATIONS})


def design(ctx, name, c, timeout=600, workers=None):
    c = with_dev(c, {})
    return ctx.model_check(SPEC, cfg(ctx, 'design-' + name, c, INVARIANTS, PROPERTIES), name='design-' + name,
                           timeout=timeout, workers=workers)


def coarse(x):
    if isinstance(x, (bool, int)) or x is None:
        return x
    if isinstance(x, str):
        x = x.split('?')[0] + '?' if '?' in x[:5] else x
        return x if len(x) < 40 else x[:40]
    if isinstance(x, dict) and 'v' in x and 'kids' in x:
        return x['v'] if x['v'] in ('-', 'absent', 'unloadable', 'lost', 'nostate', 'nofile', 'blobrec', 'badpos') else 'a-state'
    if isinstance(x, (dict, set, frozenset, tuple, list)):
        return 'map' if isinstance(x, dict) else 'seq' if isinstance(x, (tuple, list)) else 'set'
    return type(x).__name__


def kinds_for(c, kinds):
    """the storages a configuration can be replayed on: blobs need blob support, a refused tpc_begin needs FileStorage"""
    if 'bf' in c['Ops']:
        return ('file',)
    if c['Blobs']:
        return tuple(k for k in kinds if k != 'mapping')
    return tuple(kinds)


def job_opts(ctx, i, kinds, objs):
    shapes = ('map', 'list', 'vobj')
    return {'kind': kinds[(i + ctx.seed) % len(kinds)],
            'shapes': {o: shapes[(i // len(kinds) + j + ctx.seed) % 3] for j, o in enumerate(objs)},
            'alt_rm': ((i // 2 + ctx.seed) % 2) == 1}


class Cover:
    def __init__(self, pid, clauses, focus, devs=cd.DEVIATIONS):
        self.pid = pid
        self.devs = set(devs)              # deviations whose clauses belong to this property (the others: the other check's)
        self.clauses = set(clauses)
        self.focus = focus                 # action names that make a tour non-trivial for this property
        self.tours = 0
        self.steps = 0
        self.actions = {}
        self.calls = {}
        self.distinct = set()
        self.nontrivial = set()
        self.samples = []
        self.graphs = {}
        self.cex = {}
        self.by_kind = {}
        self.other_clauses = {}
        self.violations = {}
        self.timing = {}
        self.reported = set()


def attribute(m, c, primary):
    """which deviation of the code a violated clause goes back to"""
    if m.get('action') == 'AddWhileFailed' and c.get('AddBeforeJoin'):
        return 'AddBeforeJoin'
    if 'imported' in (m.get('role') or '').split('+') and c.get('ImportNotCreating'):
        return 'ImportNotCreating'
    d = cd.CLAUSE_DEVIATION.get(m['clause'])
    if d:
        return d
    if m.get('blob') and c.get('SpBlobByName') and m['clause'] in ('stale', 'dirty-idle'):
        return 'SpBlobByName'        # a blob activated from a stale savepoint file that is gone with the store
    if primary:
        return sorted(primary)[0]
    on = [k for k in cd.DEVIATIONS if c.get(k)]
    return on[0] if len(on) == 1 else 'none'


def annotate(results, c, steps_of, origin, have=None):
    """turn monitor events and mismatches of replay results into violation records (signature, text, replay);
    the replay payload is built for the first occurrence of a signature only (it needs the states of the path)"""
    have = set() if have is None else have
    for r in results:
        vs = []
        steps = None
        primary = {}
        for m in r['monitor']:
            if m['clause'] in cd.CLAUSE_DEVIATION:
                primary.setdefault((m['step'], m['obj']), set()).add(attribute(m, c, None))
        for m in r['monitor']:
            dev = attribute(m, c, primary.get((m['step'], m['obj'])) or {x for v in primary.values() for x in v})
            sig = {'kind': 'property', 'clause': m['clause'], 'deviation': dev}
            key = 'property/%s/%s' % (m['clause'], dev)
            rep = None
            if key not in have:
                have.add(key)
                steps = steps or steps_of(r)
                rep = _replay_of(r, c, steps, m['step'])
            vs.append({'sig': sig, 'key': key, 'clause': m['clause'], 'replay': rep,
                       'text': '[%s, %s] %s does not hold for object %s (%s) after %s: the real code is in the state TLC marked '
                               '(conformance held on every step); behaviour: %s' % (
                                   origin, r['kind'], m['clause'], m['obj'], m['role'], m['action'], ' '.join(m['prefix'][-14:]))})
        mm = r['mismatch']
        if mm:
            sig = {'kind': 'conformance', 'action': mm['action'], 'where': mm['where'], 'spec': coarse(mm['spec']),
                   'impl': coarse(mm['impl'])}
            key = 'conformance/%s/%s/%s/%s' % (mm['action'], mm['where'], sig['spec'], sig['impl'])
            rep = None
            if key not in have:
                have.add(key)
                steps = steps or steps_of(r)
                rep = _replay_of(r, c, steps, mm['step'])
            vs.append({'sig': sig, 'key': key, 'clause': None, 'replay': rep,
                       'text': '[%s, %s] the real connection diverges from ZConn at step %d %s(%s) [%s]: %s spec=%r impl=%r; '
                               'behaviour: %s' % (origin, r['kind'], mm['step'], mm['action'], ','.join(mm['args']), mm['role'],
                                                  mm['where'], mm['spec'], mm['impl'], ' '.join(mm['prefix'][-16:]))})
        r['violations'] = vs
        r.pop('monitor')
        r['diverged'] = bool(r.pop('mismatch'))
        r.pop('edges', None)
    return results


def judge(ctx, cov, results):
    for r in results:
        cov.tours += 1
        cov.steps += r['steps']
        kd = cov.by_kind.setdefault(r['kind'], {'tours': 0, 'steps': 0})
        kd['tours'] += 1
        kd['steps'] += r['steps']
        for a, k in r['actions'].items():
            cov.actions[a] = cov.actions.get(a, 0) + k
        for a, k in r['calls'].items():
            cov.calls[a] = cov.calls.get(a, 0) + k
        h = hashlib.sha1('|'.join(r['sig']).encode()).hexdigest()[:16]
        cov.distinct.add(h)
        focus = any(r['actions'].get(a) for a in cov.focus)
        if focus:
            cov.nontrivial.add(h)
        if len(cov.samples) < 4 and len(r['sig']) >= 6 and focus:
            cov.samples.append(r['sig'][:40])
        for v in r['violations']:
            if v['clause'] is not None and (v['clause'] not in cov.clauses or
                                            (v['sig']['deviation'] in cd.DEVIATIONS and v['sig']['deviation'] not in cov.devs)):
                cov.other_clauses[v['key']] = cov.other_clauses.get(v['key'], 0) + 1
                continue
            cov.violations[v['key']] = cov.violations.get(v['key'], 0) + 1
            if v['replay'] is not None or v['key'] not in cov.reported:
                # once per signature and origin (with the behaviour to replay); the occurrences are counted above
                cov.reported.add(v['key'])
                ctx.violation(v['sig'], v['text'], replay=v['replay'])


def _replay_of(r, c, steps, upto):
    # up to the end of the commit the step lies in
    end = min(len(steps) - 1, upto)
    while end < len(steps) - 1 and steps[end]['state']['cm']['pc'] != 'idle':
        end += 1
    return {'consts': c, 'opts': r['opts'],
            'steps': [{'action': s['action'], 'args': [a if isinstance(a, int) else str(a) for a in s['args']],
                       'state': to_tla(s['state'])} for s in steps[:end + 1]]}


def trace_steps(trace):
    steps = [{'action': s['action'], 'args': s['args'], 'state': s['state']} for s in trace]
    steps[0]['action'] = 'Init'
    return steps


def exhibit_tlc(ctx, name, c, dev, deviation, invariant, timeout=300):
    """TLC's counterexample for one deviation constant (the others as given)"""
    cc = with_dev(c, dict(dev, **{deviation: True}))
    r = ctx.model_check(SPEC, cfg(ctx, 'cex-' + name, cc, [invariant]), name='as-code-' + name, expect_violation=invariant,
                        timeout=timeout, workers=1, extra=('-fp', '11'))
    return cc, r


def exhibit_replay(ctx, cov, name, cc, r, deviation, invariant, kinds):
    """... replayed on the real code.  -> does the tree show it?"""
    steps = trace_steps(r.trace)
    shown = []
    results = []
    kinds = kinds_for(cc, kinds)
    for i, kind in enumerate(kinds):
        opts = dict(job_opts(ctx, i, [kind], cc['Obj']), kind=kind)
        res = cd.replay_path((steps, cc, kind, os.path.join(ctx.scratch, 'cex-%s-%s' % (name, kind)), opts))
        last = res['monitor'][-1] if res['monitor'] else None
        shown.append(bool(res.get('completed')) and not res['mismatch'] and last is not None and last['step'] == len(steps) - 2)
        results.append(res)
    tree = all(shown)
    if any(shown) and not tree:
        raise RuntimeError('counterexample %s is followed on some storages only: %r' % (name, dict(zip(kinds, shown))))
    cov.cex[name] = {'deviation': deviation, 'violates': invariant, 'trace': [cd.label(s) for s in steps[1:]],
                     'exhibited_by_code': tree}
    if tree:
        for res in results:
            for m in res['monitor']:
                m['step'] += 1           # steps[0] is the initial state here
        judge(ctx, cov, annotate(results, cc, lambda _r: steps, 'TLC counterexample ' + name))
    else:
        cov.cex[name]['diverges_at'] = ['%s %s' % ((res['mismatch'] or {}).get('action'), (res['mismatch'] or {}).get('where'))
                                        for res in results]
    return tree


SMALL = dict(Obj=('a', 'b'), Edges='EdgesFlat', MaxCommit=1, MaxAct=3)


def deviations(ctx, cov, kinds, blobs=False):
    """decide, constant by constant, whether the tree under test shows the deviation.  The counterexamples of the
    first group do not touch each other's code paths (the other constants cleared); F16's pass through a store loop
    that raises, so they are generated with LeakUnstored as established.  TLC runs side by side."""
    t0 = time.time()
    dev = {d: False for d in cd.DEVIATIONS}
    first = [('unstored-object-keeps-oid', cd.consts(Ops=('add', 'own', 'rm'), **SMALL), 'LeakUnstored', 'NoOwnedUncommitted'),
             ('creating-map-shared', cd.consts(Ops=('add', 'sp'), MaxSp=2, **dict(SMALL, MaxAct=6)), 'AliasCreating', 'RollbackOwner'),
             ('add-while-transaction-failed', cd.consts(Ops=('add', 'awf'), **SMALL), 'AddBeforeJoin', 'NoOwnedUncommitted'),
             ('imported-object-never-disowned', cd.consts(Ops=('sp', 'imp'), MaxSp=1, **SMALL), 'ImportNotCreating',
              'NoOwnedUncommitted')]
    if blobs:
        first.append(('savepoint-blob-overwritten',
                      cd.consts(Obj=('a', 'k'), Blobs=('k',), Edges='EdgesBlob', Ops=('add', 'sp'), MaxSp=2, MaxCommit=1, MaxAct=5),
                      'SpBlobByName', 'RollbackValue'))
    with concurrent.futures.ThreadPoolExecutor(len(first)) as ex:
        runs = list(ex.map(lambda it: exhibit_tlc(ctx, it[0], it[1], {}, it[2], it[3]), first))
    for (name, _c, d, inv), (cc, r) in zip(first, runs):
        dev[d] = exhibit_replay(ctx, cov, name, cc, r, d, inv, kinds)
    second = [('added-object-emptied', cd.consts(Ops=('add', 'own', 'rm'), **SMALL)),
              ('savepoint-object-emptied', cd.consts(Ops=('add', 'sp'), MaxSp=1, **dict(SMALL, MaxAct=4)))]
    known = {'LeakUnstored': dev['LeakUnstored']}
    with concurrent.futures.ThreadPoolExecutor(len(second)) as ex:
        runs = list(ex.map(lambda it: exhibit_tlc(ctx, it[0], it[1], known, 'InvalidateDoomed', 'NoStateLost'), second))
    shown = [exhibit_replay(ctx, cov, name, cc, r, 'InvalidateDoomed', 'NoStateLost', kinds)
             for (name, _c), (cc, r) in zip(second, runs)]
    dev['InvalidateDoomed'] = shown[0]
    cov.timing['counterexamples_s'] = round(time.time() - t0, 1)
    return dev


def _tlc_job(args):
    ctx, kind, name, c, workers, timeout = args
    if kind == 'design':
        r = tlc.run(SPEC, cfg(ctx, 'design-' + name, with_dev(c, {}), INVARIANTS, PROPERTIES), timeout=timeout, workers=workers)
        return kind, name, r, None
    wd = os.path.join(ctx.scratch, 'graph-' + name)
    os.makedirs(wd, exist_ok=True)
    dot = os.path.join(wd, 'graph.dot')
    r = tlc.run(SPEC, cfg(ctx, 'graph-' + name, c, GRAPH_INVARIANTS, GRAPH_PROPERTIES), workdir=wd, dump_dot=dot,
                timeout=timeout, workers=workers, extra=('-fp', '11'))
    return kind, name, r, dot


def _graph_process(conn_, ctx, name, c, dot, distinct, kinds, budget, cap, workers):
    """load, plan and replay one dumped graph (its own process: the replay workers are forked from it)"""
    try:
        t0 = time.time()
        kinds = kinds_for(c, kinds)
        g = cg.load(dot)
        os.remove(dot)
        if len(g.raw) != distinct:
            raise RuntimeError('dumped graph %s has %d states, TLC reported %d' % (name, len(g.raw), distinct))
        t1 = time.time()
        tours, st = cg.plan(g, ctx.seed, cap=cap, budget=budget, near=8 if len(g.raw) < 40000 else 5)
        t2 = time.time()
        cg.CURRENT, cg.TOURS = g, tours
        order = list(range(len(tours)))
        random.Random(ctx.seed).shuffle(order)
        jobs = []
        for ch in par.chunks(order, workers * 4):
            if ch:
                jobs.append((ch, c, os.path.join(ctx.scratch, 'rp-%s-%d' % (name, ch[0])),
                             [job_opts(ctx, ti, kinds, c['Obj']) for ti in ch]))
        results = [r2 for chunk in par.pmap(cg.replay_tours, jobs, workers=workers) for r2 in chunk]

        def steps_of(res):
            steps = [{'action': 'Init', 'args': [], 'state': g.state(g.init)}]
            for lab, node in tours[res['tour']]:
                a, args = cd.split_label(lab)
                steps.append({'action': a, 'args': args, 'state': g.state(node)})
            return steps

        for res in results:          # monitor / mismatch steps are counted without the initial state
            for m in res['monitor']:
                m['step'] += 1
            if res['mismatch']:
                res['mismatch']['step'] += 1
        st['replayed_steps'] = sum(r2['steps'] for r2 in results)
        st['diverged_tours'] = sum(1 for r2 in results if r2['mismatch'])
        t3 = time.time()
        annotate(results, c, steps_of, 'graph ' + name)
        st['wall_s'] = {'load': round(t1 - t0, 1), 'plan': round(t2 - t1, 1), 'replay': round(t3 - t2, 1),
                        'annotate': round(time.time() - t3, 1)}
        conn_.send(('ok', st, results))
    except BaseException:
        import traceback
        conn_.send(('err', traceback.format_exc(), None))
    finally:
        conn_.close()


def check_all(ctx, cov, items, dev, kinds, budget=None, cap=250, timeout=1500):
    """items = [(name, consts)].  The design (deviations cleared) is model-checked and the graph of the model of the
    code as it is (deviations as established) is dumped for every configuration, all TLC runs side by side; then
    every graph is loaded, planned and replayed in a process of its own."""
    import multiprocessing
    t0 = time.time()
    as_code = [(name, with_dev(c, dev)) for name, c in items]
    ncpu = os.cpu_count() or 4
    w = max(2, ncpu // max(1, 2 * len(items)))
    jobs = [(ctx, 'design', name, c, w, timeout) for name, c in items] + [(ctx, 'graph', name, c, w, timeout) for name, c in as_code]
    with concurrent.futures.ThreadPoolExecutor(len(jobs)) as ex:
        done = list(ex.map(_tlc_job, jobs))
    dots = {}
    for kind, name, r, dot in done:
        ctx.add_tlc('%s-%s' % (kind, name), r)
        if not r.ok:
            raise tlc.TLCError('%s %s: %s violated\n%s' % (kind, name, r.violation, r.output[-3000:]))
        if kind == 'graph':
            dots[name] = (dot, r.distinct)
    cov.timing['tlc_design_and_dump_s'] = round(time.time() - t0, 1)
    t0 = time.time()
    mp = multiprocessing.get_context('fork')
    procs = []
    # replay workers per graph in proportion to the work (transitions; file storages with blobs cost about twice)
    work = {name: max(1, r.states_generated) * (2 if c['Blobs'] else 1)
            for (name, c), (kind, _n, r, _d) in zip(as_code, [d for d in done if d[0] == 'graph'])}
    total = float(sum(work.values()))
    for name, c in as_code:
        pw = max(2, int(round((ncpu + 2) * work[name] / total)))
        a, b = mp.Pipe(False)
        bud = budget.get(name) if isinstance(budget, dict) else budget
        p = mp.Process(target=_graph_process, args=(b, ctx, name, c, dots[name][0], dots[name][1], kinds, bud, cap, pw))
        p.start()
        b.close()
        procs.append((name, c, p, a))
    for name, c, p, a in procs:
        try:
            status, st, results = a.recv()
        except EOFError:
            status, st, results = 'err', 'graph process %s died' % name, None
        p.join()
        if status != 'ok':
            raise RuntimeError('graph %s failed:\n%s' % (name, st))
        judge(ctx, cov, results)
        st['constants'] = {k: c[k] for k in ('Obj', 'Blobs', 'Edges', 'Pre', 'MaxSp', 'MaxCommit', 'MaxOther', 'MaxAct',
                                             'MaxTail', 'Ops')}
        st['storages'] = list(kinds_for(c, kinds))
        cov.graphs[name] = st
    cov.timing['load_plan_replay_s'] = round(time.time() - t0, 1)


def simulate(ctx, cov, name, c, dev, kinds, num, depth):
    """behaviours of a configuration too large to dump, generated by `tlc -simulate` (seeded) and replayed"""
    import glob
    t0 = time.time()
    c = with_dev(c, dev)
    kinds = kinds_for(c, kinds)
    wd = os.path.join(ctx.scratch, 'sim-' + name)
    out = os.path.join(wd, 'out')
    os.makedirs(out, exist_ok=True)
    r = tlc.run(SPEC, cfg(ctx, 'sim-' + name, c), workdir=wd, simulate='file=%s/tr,num=%d' % (out, num), depth=depth,
                seed=ctx.seed + 1, workers=1, timeout=1500)
    if not r.ok:
        raise tlc.TLCError('simulation %s: %s\n%s' % (name, r.violation, r.output[-2000:]))
    ctx.model['runs'].append(dict(r.summary(), name='simulate-' + name))
    files = sorted(glob.glob(os.path.join(out, 'tr_*')))
    jobs = []
    for j, ch in enumerate(par.chunks(files, (os.cpu_count() or 4) * 4)):
        if ch:
            jobs.append((ch, c, os.path.join(ctx.scratch, 'rs-%s-%d' % (name, j)),
                         [job_opts(ctx, j * 1000 + i, kinds, c['Obj']) for i in range(len(ch))]))
    results = [x for chunk in par.pmap(cg.replay_files, jobs) for x in chunk]
    for res in results:
        for m in res['monitor']:
            m['step'] += 1
        if res['mismatch']:
            res['mismatch']['step'] += 1
    annotate(results, c, lambda res: res['_steps'], 'simulation ' + name)
    for res in results:
        res.pop('_steps', None)
    judge(ctx, cov, results)
    cov.graphs['simulate-' + name] = {
        'behaviours': len(results), 'replayed_steps': sum(x['steps'] for x in results), 'sampled': True, 'simulated': True,
        'diverged_tours': sum(1 for x in results if x['diverged']), 'transitions': 0, 'transitions_planned': 0,
        'constants': {k: c[k] for k in ('Obj', 'Blobs', 'Edges', 'Pre', 'MaxSp', 'MaxCommit', 'MaxOther', 'MaxAct', 'MaxTail', 'Ops')},
        'storages': list(kinds), 'wall_s': round(time.time() - t0, 1)}


def finish(ctx, cov, need, rule, dev):
    if not ctx.violations and not ctx.known:
        lacking = [a for a in need if not cov.actions.get(a)]
        if lacking:
            raise RuntimeError('vacuous replay: actions never taken: %r' % lacking)
        for name, st in cov.graphs.items():
            if not st['sampled'] and st['transitions_planned'] != st['transitions']:
                raise RuntimeError('plan did not cover graph %s: %r' % (name, st))
    exhaustive = bool(cov.graphs) and all(not st['sampled'] for st in cov.graphs.values() if not st.get('simulated'))
    return ctx.finish({
        'evaluations': cov.tours,
        'distinct_nontrivial': len(cov.nontrivial),
        'distinct_behaviours': len(cov.distinct),
        'rule': rule,
        'traces_validated_against_impl': cov.tours,
        'replayed_steps': cov.steps,
        'per_storage': cov.by_kind,
        'actions': cov.actions,
        'real_calls': cov.calls,
        'graphs': cov.graphs,
        'tlc_counterexamples': cov.cex,
        'constants_matching_tree': dev,
        'phase_wall_s': cov.timing,
        'violations_by_kind': cov.violations,
        'clauses_of_the_other_property_observed': cov.other_clauses,
        'samples': cov.samples or [v['trace'] for v in cov.cex.values()],
        'exhaustive': exhaustive,
    }, ASSUME)


def replay(ctx, data, clauses, focus, devs=cd.DEVIATIONS):
    rp = data['replay']
    c = rp['consts']
    c = dict(c, Obj=tuple(c['Obj']), Blobs=tuple(c['Blobs']), Val=tuple(c['Val']), Pre=tuple(c['Pre']), Ops=tuple(c['Ops']))
    if 'steps' not in rp:
        raise RuntimeError('this replay file records labels only: %s' % ' '.join(rp['labels']))
    steps = [{'action': s['action'], 'args': list(s['args']), 'state': tlaparse.parse_value(s['state'])} for s in rp['steps']]
    opts = dict(rp['opts'])
    res = cd.replay_path((steps, c, opts['kind'], os.path.join(ctx.scratch, 'replay'), opts))
    print('replayed %s' % ' '.join(res['sig']))
    cov = Cover(ctx.pid, clauses, focus, devs)
    for m in res['monitor']:
        m['step'] += 1
    if res['mismatch']:
        res['mismatch']['step'] += 1
    sig = res['sig'][:]
    judge(ctx, cov, annotate([res], c, lambda _r: steps, 'replay'))
    res['sig'] = sig
    return ctx.finish({'evaluations': 1, 'distinct_nontrivial': 1, 'rule': 'replay of one recorded behaviour',
                       'states': len(steps), 'transitions': max(1, len(steps) - 1), 'traces_validated_against_impl': 1,
                       'samples': [res['sig']], 'exhaustive': False}, ASSUME)
