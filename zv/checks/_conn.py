"""Shared body of the checks decided on spec/ZConn.tla (C11, C12).

1. TLC checks the design (the four deviation constants cleared) on the check's configurations: every clause
   of the property is an invariant / action property of the specification.
2. For each deviation constant TLC exhibits a violation with the constant set to the behaviour of the code;
   the counterexample is replayed on the real code.  If the code follows it into the violating state the
   defect is established (reported with a structural signature) and the constant stays set for step 3;
   otherwise the repaired behaviour is the model of this tree.
3. TLC dumps the state graph of the model of the code as it is; tours covering every transition (a seeded
   sample in the quick tier for the larger graphs) are replayed on real connections over the bundled storages:
   conformance of the projected real state with the state TLC printed after every action, and - on top - the
   clauses TLC marked as violated in a state (`obs.mon`) are reported when the real code is in that state."""
import concurrent.futures
import hashlib
import os
import random

from .. import par, tlaparse, tlc
from ..drivers import conn as cd
from ..drivers import conn_graph as cg

SPEC = 'MCZConn'
INVARIANTS = ['TypeOK', 'ObsDerived', 'NewDisowned', 'AbortRestores', 'CleanAfterCommit', 'NoStateAcrossReuse',
              'CloseOnlyOutsideTxn', 'RollbackRestores']
PROPERTIES = ['CommittedTogether', 'RollbackRestoresAct', 'SavepointInvisible', 'CommitStoresFinalStates']
GRAPH_INVARIANTS = ['TypeOK', 'ObsDerived', 'CloseOnlyOutsideTxn']
GRAPH_PROPERTIES = ['SavepointInvisible']

ASSUME = ['TLC results are exhaustive only within the stated constants (objects, values, link shapes, savepoints, commits, '
          'application actions per transaction)',
          'the C implementation of persistent (cPersistence, cPickleCache: invalidate() empties the list it is given) and '
          'the transaction package are trusted as installed; the cache never evicts (4 objects, default size)',
          'a failing commit is followed by transaction.abort() (the caller\'s duty); the specification treats it as a stutter '
          'and the replayer checks that it is one',
          'an unpicklable value sits at the end of the object\'s state (every child reference is pickled before it)',
          'once a clause of the property is violated in a state the behaviour is not explored further (what the code does '
          'with a dangling or emptied object is outside the specification)',
          'the data of a blob that was disowned after a store belongs to the store (ZODB hands blob files over): not judged']


def to_tla(v):
    """a parsed TLC value back to text that tlaparse.parse_value reads to an equal value"""
    if isinstance(v, bool):
        return 'TRUE' if v else 'FALSE'
    if isinstance(v, int):
        return str(v)
    if isinstance(v, str):
        return '"%s"' % v
    if isinstance(v, (frozenset, set)):
        return '{' + ', '.join(sorted(to_tla(x) for x in v)) + '}'
    if isinstance(v, (tuple, list)):
        return '<<' + ', '.join(to_tla(x) for x in v) + '>>'
    if isinstance(v, dict):
        if not v:
            return '<<>>'
        return '(' + ' @@ '.join('%s :> %s' % (to_tla(k), to_tla(x)) for k, x in v.items()) + ')'
    raise TypeError(type(v))


def cfg(ctx, name, c, invariants=(), properties=()):
    path = os.path.join(ctx.scratch, name + '.cfg')
    tlc.write_cfg(path, constants=cd.tla_consts(c), invariants=invariants, properties=properties)
    return path


def with_dev(c, dev):
    return dict(c, **{k: bool(dev.get(k)) for k in cd.DEVIATIONS})


def design(ctx, name, c, timeout=600, workers=None):
    c = with_dev(c, {})
    return ctx.model_check(SPEC, cfg(ctx, 'design-' + name, c, INVARIANTS, PROPERTIES), name='design-' + name,
                           timeout=timeout, workers=workers)


def designs(ctx, items):
    """[(name, consts)] model-checked side by side"""
    n = max(2, (os.cpu_count() or 4) // max(1, len(items)))
    with concurrent.futures.ThreadPoolExecutor(len(items)) as ex:
        futs = [ex.submit(tlc.run, SPEC, cfg(ctx, 'design-' + name, with_dev(c, {}), INVARIANTS, PROPERTIES), timeout=900, workers=n)
                for name, c in items]
        for (name, _c), f in zip(items, futs):
            r = f.result()
            ctx.add_tlc('design-' + name, r)
            if not r.ok:
                raise tlc.TLCError('the design violates %s on configuration %s\n%s' % (r.violation, name, r.output[-3000:]))


def coarse(x):
    if isinstance(x, (bool, int)) or x is None:
        return x
    if isinstance(x, str):
        return x if len(x) < 40 else x[:40]
    if isinstance(x, dict) and 'v' in x and 'kids' in x:
        return x['v'] if x['v'] in ('-', 'absent', 'unloadable', 'lost', 'nostate', 'nofile', 'blobrec', 'badpos') else 'a-state'
    if isinstance(x, (dict, set, frozenset, tuple, list)):
        return '%s/%d' % ('map' if isinstance(x, dict) else 'seq' if isinstance(x, (tuple, list)) else 'set', len(x))
    return type(x).__name__


def job_opts(ctx, i, kinds, objs):
    shapes = ('map', 'list', 'vobj')
    return {'kind': kinds[(i + ctx.seed) % len(kinds)],
            'shapes': {o: shapes[(i // len(kinds) + j + ctx.seed) % 3] for j, o in enumerate(objs)},
            'alt_rm': ((i // 2 + ctx.seed) % 2) == 1}


class Cover:
    def __init__(self, pid, clauses, focus):
        self.pid = pid
        self.clauses = set(clauses)
        self.focus = focus                 # action names that make a tour non-trivial for this property
        self.tours = 0
        self.steps = 0
        self.actions = {}
        self.calls = {}
        self.distinct = set()
        self.nontrivial = set()
        self.samples = []
        self.graphs = {}
        self.cex = {}
        self.by_kind = {}
        self.other_clauses = {}
        self.violations = {}


def attribute(m, c, steps):
    """which deviation of the code a violated clause goes back to"""
    cl = m['clause']
    on = [d for d in cd.DEVIATIONS if c.get(d)]
    if cl in cd.CLAUSE_DEVIATION:
        return cd.CLAUSE_DEVIATION[cl]
    if cl == 'rollback':
        st = steps[m['step']]['state'] if steps else None
        if st is not None:
            seen = st['obs']['seen'][m['obj']]
            prev = steps[m['step'] - 1]['state'] if m['step'] > 0 else None
            k = steps[m['step']]['args'][0]
            if prev is not None:
                snap = prev['sps'][k - 1]['snap'][m['obj']]
                if bool(snap['own']) != bool(st['ob'][m['obj']]['own']) or seen['v'] == 'unloadable':
                    return 'AliasCreating'
                return 'SpBlobByName' if m['blob'] else 'AliasCreating'
        return 'SpBlobByName' if m['blob'] and c.get('SpBlobByName') else 'AliasCreating'
    return on[0] if len(on) == 1 else 'secondary'


def judge(ctx, cov, results, c, origin, steps_of=None):
    for r in results:
        cov.tours += 1
        cov.steps += r['steps']
        kd = cov.by_kind.setdefault(r['kind'], {'tours': 0, 'steps': 0})
        kd['tours'] += 1
        kd['steps'] += r['steps']
        for a, k in r['actions'].items():
            cov.actions[a] = cov.actions.get(a, 0) + k
        for a, k in r['calls'].items():
            cov.calls[a] = cov.calls.get(a, 0) + k
        h = hashlib.sha1('|'.join(r['sig']).encode()).hexdigest()[:16]
        cov.distinct.add(h)
        if any(r['actions'].get(a) for a in cov.focus):
            cov.nontrivial.add(h)
        if len(cov.samples) < 4 and len(r['sig']) >= 6 and any(r['actions'].get(a) for a in cov.focus):
            cov.samples.append(r['sig'][:40])
        steps = steps_of(r) if steps_of else None
        primary = {}
        for m in r['monitor']:
            if m['clause'] in cd.CLAUSE_DEVIATION or m['clause'] == 'rollback':
                primary[(m['step'], m['obj'])] = attribute(m, c, steps)
        for m in r['monitor']:
            dev = primary.get((m['step'], m['obj'])) or attribute(m, c, steps)
            if dev == 'secondary' and primary:
                dev = sorted(primary.values())[0]
            sig = {'kind': 'property', 'clause': m['clause'], 'deviation': dev}
            key = '%s/%s' % (m['clause'], dev)
            if m['clause'] not in cov.clauses:
                cov.other_clauses[key] = cov.other_clauses.get(key, 0) + 1
                continue
            cov.violations[key] = cov.violations.get(key, 0) + 1
            ctx.violation(sig, '[%s, %s] %s does not hold for object %s (%s) after %s: the real code is in the state TLC '
                          'marked (conformance held on every step); behaviour: %s' % (
                              origin, r['kind'], m['clause'], m['obj'], m['role'], m['action'],
                              ' '.join((m['prefix'])[-14:])),
                          replay=_replay_of(r, c, steps, m['step']))
        mm = r['mismatch']
        if mm:
            sig = {'kind': 'conformance', 'action': mm['action'], 'where': mm['where'], 'spec': coarse(mm['spec']),
                   'impl': coarse(mm['impl'])}
            key = 'conformance/%s/%s' % (mm['action'], mm['where'])
            cov.violations[key] = cov.violations.get(key, 0) + 1
            ctx.violation(sig, '[%s, %s] the real connection diverges from ZConn at step %d %s(%s) [%s]: %s spec=%r impl=%r; '
                          'behaviour: %s' % (origin, r['kind'], mm['step'], mm['action'], ','.join(mm['args']), mm['role'],
                                             mm['where'], mm['spec'], mm['impl'], ' '.join(mm['prefix'][-16:])),
                          replay=_replay_of(r, c, steps, mm['step']))


def _replay_of(r, c, steps, upto):
    if steps is None:
        return {'consts': c, 'opts': r['opts'], 'labels': r['sig']}
    # up to the end of the commit the step lies in
    end = min(len(steps) - 1, upto + 1)
    while end < len(steps) - 1 and steps[end]['state']['cm']['pc'] != 'idle':
        end += 1
    return {'consts': c, 'opts': r['opts'],
            'steps': [{'action': s['action'], 'args': [a if isinstance(a, int) else str(a) for a in s['args']],
                       'state': to_tla(s['state'])} for s in steps[:end + 1]]}


def trace_steps(trace):
    steps = [{'action': s['action'], 'args': s['args'], 'state': s['state']} for s in trace]
    steps[0]['action'] = 'Init'
    return steps


def exhibit(ctx, cov, name, c, deviation, invariant, kinds, timeout=300):
    """TLC's counterexample for one deviation constant, replayed on the real code.  -> does the tree show it?"""
    cc = with_dev(c, {deviation: True})
    r = ctx.model_check(SPEC, cfg(ctx, 'cex-' + name, cc, [invariant]), name='as-code-' + name, expect_violation=invariant,
                        timeout=timeout, workers=1, extra=('-fp', '11'))
    steps = trace_steps(r.trace)
    shown = []
    results = []
    for i, kind in enumerate(kinds):
        opts = dict(job_opts(ctx, i, [kind], c['Obj']), kind=kind)
        res = cd.replay_path((steps, cc, kind, os.path.join(ctx.scratch, 'cex-%s-%s' % (name, kind)), opts))
        last = res['monitor'][-1] if res['monitor'] else None
        shown.append(bool(res.get('completed')) and not res['mismatch'] and last is not None and last['step'] == len(steps) - 2)
        results.append(res)
    tree = all(shown)
    if any(shown) and not tree:
        raise RuntimeError('counterexample %s is followed on some storages only: %r' % (name, dict(zip(kinds, shown))))
    cov.cex[name] = {'deviation': deviation, 'violates': invariant, 'trace': [cd.label(s) for s in steps[1:]],
                     'exhibited_by_code': tree}
    if tree:
        for res in results:
            for m in res['monitor']:
                m['step'] += 1           # steps[0] is the initial state here
        judge(ctx, cov, results, cc, 'TLC counterexample ' + name, steps_of=lambda _r: steps)
    else:
        cov.cex[name]['diverges_at'] = [(res['mismatch'] or {}).get('action') for res in results]
    return tree


def _dump(args):
    ctx, name, c, workers, timeout = args
    wd = os.path.join(ctx.scratch, 'graph-' + name)
    os.makedirs(wd, exist_ok=True)
    dot = os.path.join(wd, 'graph.dot')
    r = tlc.run(SPEC, cfg(ctx, 'graph-' + name, c, GRAPH_INVARIANTS, GRAPH_PROPERTIES), workdir=wd, dump_dot=dot,
                timeout=timeout, workers=workers, extra=('-fp', '11'))
    return name, r, dot


def graphs(ctx, cov, items, dev, kinds, budget=None, cap=250):
    """items = [(name, consts)]: dump side by side, then plan and replay one after the other"""
    items = [(name, with_dev(c, dev)) for name, c in items]
    n = max(2, (os.cpu_count() or 4) // max(1, len(items)))
    with concurrent.futures.ThreadPoolExecutor(len(items)) as ex:
        dumps = list(ex.map(_dump, [(ctx, name, c, n, 1500) for name, c in items]))
    for (name, c), (_n, r, dot) in zip(items, dumps):
        if not r.ok:
            raise tlc.TLCError('graph %s: %s\n%s' % (name, r.violation, r.output[-3000:]))
        ctx.add_tlc('graph-' + name, r)
        g = cg.load(dot)
        os.remove(dot)
        if len(g.raw) != r.distinct:
            raise RuntimeError('dumped graph %s has %d states, TLC reported %d' % (name, len(g.raw), r.distinct))
        b = budget.get(name) if isinstance(budget, dict) else budget
        tours, st = cg.plan(g, ctx.seed, cap=cap, budget=b)
        cg.CURRENT, cg.TOURS = g, tours
        order = list(range(len(tours)))
        random.Random(ctx.seed).shuffle(order)
        nj = max(1, min(len(order), (os.cpu_count() or 4) * 4))
        jobs = []
        for ch in par.chunks(order, nj):
            if ch:
                jobs.append((ch, c, os.path.join(ctx.scratch, 'rp-%s-%d' % (name, ch[0])),
                             [job_opts(ctx, ti, kinds, c['Obj']) for ti in ch]))
        results = [r2 for chunk in par.pmap(cg.replay_tours, jobs) for r2 in chunk]

        def steps_of(res, g=g, tours=tours):
            steps = [{'action': 'Init', 'args': [], 'state': g.state(g.init)}]
            for lab, node in tours[res['tour']]:
                a, args = cd.split_label(lab)
                steps.append({'action': a, 'args': args, 'state': g.state(node)})
            return steps

        for res in results:          # monitor / mismatch steps are counted without the initial state
            for m in res['monitor']:
                m['step'] += 1
            if res['mismatch']:
                res['mismatch']['step'] += 1
        judge(ctx, cov, results, c, 'graph ' + name, steps_of=steps_of)
        cg.CURRENT = cg.TOURS = None
        st['replayed_steps'] = sum(r2['steps'] for r2 in results)
        st['diverged_tours'] = sum(1 for r2 in results if r2['mismatch'])
        st['constants'] = {k: c[k] for k in ('Obj', 'Blobs', 'Edges', 'Pre', 'MaxSp', 'MaxCommit', 'MaxOther', 'MaxAct',
                                             'MaxTail', 'Ops')}
        st['storages'] = list(kinds)
        cov.graphs[name] = st


def finish(ctx, cov, need, rule, dev):
    if not ctx.violations and not ctx.known:
        lacking = [a for a in need if not cov.actions.get(a)]
        if lacking:
            raise RuntimeError('vacuous replay: actions never taken: %r' % lacking)
        for name, st in cov.graphs.items():
            if not st['sampled'] and st['transitions_planned'] != st['transitions']:
                raise RuntimeError('plan did not cover graph %s: %r' % (name, st))
    exhaustive = bool(cov.graphs) and all(not st['sampled'] for st in cov.graphs.values())
    return ctx.finish({
        'evaluations': cov.tours,
        'distinct_nontrivial': len(cov.nontrivial),
        'distinct_behaviours': len(cov.distinct),
        'rule': rule,
        'traces_validated_against_impl': cov.tours,
        'replayed_steps': cov.steps,
        'per_storage': cov.by_kind,
        'actions': cov.actions,
        'real_calls': cov.calls,
        'graphs': cov.graphs,
        'tlc_counterexamples': cov.cex,
        'constants_matching_tree': dev,
        'violations_by_kind': cov.violations,
        'clauses_of_the_other_property_observed': cov.other_clauses,
        'samples': cov.samples or [v['trace'] for v in cov.cex.values()],
        'exhaustive': exhaustive,
    }, ASSUME)


def replay(ctx, data, clauses, focus):
    rp = data['replay']
    c = rp['consts']
    c = dict(c, Obj=tuple(c['Obj']), Blobs=tuple(c['Blobs']), Val=tuple(c['Val']), Pre=tuple(c['Pre']), Ops=tuple(c['Ops']))
    if 'steps' not in rp:
        raise RuntimeError('this replay file records labels only: %s' % ' '.join(rp['labels']))
    steps = [{'action': s['action'], 'args': list(s['args']), 'state': tlaparse.parse_value(s['state'])} for s in rp['steps']]
    opts = dict(rp['opts'])
    res = cd.replay_path((steps, c, opts['kind'], os.path.join(ctx.scratch, 'replay'), opts))
    print('replayed %s' % ' '.join(res['sig']))
    cov = Cover(ctx.pid, clauses, focus)
    for m in res['monitor']:
        m['step'] += 1
    if res['mismatch']:
        res['mismatch']['step'] += 1
    judge(ctx, cov, [res], c, 'replay', steps_of=lambda _r: steps)
    return ctx.finish({'evaluations': 1, 'distinct_nontrivial': 1, 'rule': 'replay of one recorded behaviour',
                       'states': len(steps), 'transitions': max(1, len(steps) - 1), 'traces_validated_against_impl': 1,
                       'samples': [res['sig']], 'exhaustive': False}, ASSUME)
