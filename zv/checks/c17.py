"""C17 - copying or recovering a storage reproduces its full history.

(a) COPY.  TLC checks CopyFaithful / CopyKeepsKinds / CopyRestoresDefined (spec/ZRecover.tla: transcription of
    BaseStorage.copy + FileStorage.restore/_data_find at history level) for every history ZStorage reaches on small
    constants, and along every simulated behaviour.  The behaviours (commit-, undo- and pack-heavy, directed
    scenarios, blob histories) are replayed on a real source storage, copied (copyTransactionsFrom, BaseStorage.copy,
    into/out of blob-enabled storages, mapping -> file) and the copy's full query table - also after close/reopen -
    must equal the table TLC printed for the source history.
(b) FSRECOVER.  TLC checks the tool loop (spec/ZRecoverTool.tla) against Terminates, PrefixBeforeDamageRecovered,
    OutputIsOrderedSubsequenceOfInput; data files built from TLC histories are damaged at positions enumerated
    relative to item boundaries, fsrecover.recover runs under a watchdog with its calls recorded, and TLC
    (spec/ZRecoverTrace.tla) validates every recorded run against the loop and judges the output.
(c) SCAN.  TLC checks Terminates on the transcription of fsrecover.scan (spec/ZRecoverScan.tla) under weak fairness;
    the lasso it exhibits for the code as it is (F5) is confirmed on the real scan(), and every pattern of the
    model is replayed on byte files: returned position / end of file / hang must be what TLC computed.
"""
import glob
import hashlib
import os
import random

from .. import clock, par, tlc
from ..drivers import recover as rv
from ..drivers import storage as sd

ASSUME = ['TLC results are exhaustive only within the stated constants',
          'source histories are sampled by seeded TLC simulation of ZStorage and by directed scenarios evaluated by TLC',
          'below a pack time only the record chain is judged (same visibility rule as C07; F17)',
          'destination kinds: FileStorage with and without a blob directory (MappingStorage has no restore and refuses '
          'tpc_begin with a status: not a destination)',
          'transaction, persistent, zodbpickle, BTrees trusted as installed']

COPY_INVARIANTS = ['CopyFaithful', 'CopyKeepsKinds', 'CopyRestoresDefined']


# ----------------------------------------------------------------------------------------------------
# (a) copy

def copy_mc(ctx, name, c, next_, timeout=900):
    cfg = os.path.join(ctx.scratch, name + '.cfg')
    tlc.write_cfg(cfg, constants=sd.tla_consts(c), next_=next_, invariants=COPY_INVARIANTS + ['TidsStrictlyIncrease'], view='View')
    return ctx.model_check('MCZRecoverCopy', cfg, name=name, timeout=timeout)


def copy_simulate(ctx, name, c, num, depth, seed, next_):
    """behaviours of ZStorage with the copy invariants checked by TLC in every state"""
    wd = os.path.join(ctx.scratch, 'sim-' + name)
    os.makedirs(wd, exist_ok=True)
    cfg = os.path.join(wd, name + '.cfg')
    tlc.write_cfg(cfg, constants=sd.tla_consts(c), next_=next_, invariants=COPY_INVARIANTS)
    outdir = os.path.join(wd, 'out')
    os.makedirs(outdir, exist_ok=True)
    r = tlc.run('MCZRecoverCopy', cfg, workdir=wd, simulate='file=%s/tr,num=%d' % (outdir, num), depth=depth,
                seed=seed, workers=1, timeout=900)
    if not r.ok:
        raise tlc.TLCError('simulation %s: %s\n%s' % (name, r.violation, r.output[-2000:]))
    ctx.model['runs'].append(dict(r.summary(), name='simulate-' + name))
    ctx.model['transitions'] += r.states_generated
    return sorted(glob.glob(os.path.join(outdir, 'tr_*')))


def copy_jobs(ctx, behs, kind, c, tag, opts=None):
    jobs = []
    for i, b in enumerate(behs):
        o = dict(opts or {})
        o.setdefault('pad', (0, 3000, 9000)[(i + ctx.seed) % 3])
        o.setdefault('ranges', (i + ctx.seed) % 5 == 0)
        jobs.append((b, kind, c, os.path.join(ctx.scratch, 'cp-%s-%d' % (tag, i)), o))
    return jobs


def judge_copy(ctx, results, tag, cov):
    for r in results:
        cov['behaviours'] += 1
        cov['copies'] += r['copies']
        h = hashlib.sha1('|'.join(r['sig']).encode()).hexdigest()
        if h not in cov['_seen']:
            cov['_seen'].add(h)
            if r['txns'] >= 2:
                cov['nontrivial'] += 1
        for k, v in r['shape'].items():
            if v:
                cov['with_' + k] = cov.get('with_' + k, 0) + 1
        for a, n in r.get('actions', {}).items():
            cov['actions'][a] = cov['actions'].get(a, 0) + n
        if r['source_failed']:
            f = r['source_failed']
            ctx.violation({'part': 'copy', 'what': 'source-replay', 'action': f['action']},
                          '[%s] the source storage diverges from ZStorage at step %d %s: %s (behaviour %s)' % (
                              tag, f['step'], f['action'], '; '.join(f['detail']), ' '.join(r['sig'][:40])),
                          replay={'tag': tag, 'prefix': r['sig']})
        for m in r['mismatch']:
            import re
            where = re.sub(r'\[[^\]]*\]', '[]', m['detail'][0].split(':')[0])[:60]
            ctx.violation({'part': 'copy', 'variant': m['variant'], 'what': m['where'], 'where': where},
                          '[%s] copy (%s) differs from the source history: %s (behaviour %s)' % (
                              tag, m['variant'], '; '.join(m['detail']), ' '.join(r['sig'][:60])),
                          replay={'tag': tag, 'variant': m['variant'], 'prefix': r['sig']})


def copy_scripts(rng, n, noid=3):
    """directed scenarios: modify / undo / undo of the undo / un-creation / deletion / re-creation, with and
    without a pack in the middle - the shapes whose copy needs back-pointers re-derived"""
    from ..drivers import scripts as sc
    out = []
    base = sc.commit([(0, 'v1', (1,)), (1, 'v1', ())], clk=1)
    out.append(base + sc.commit([(1, 'v2', ())], clk=2) + sc.undo(-1, clk=3) + sc.undo(-1, clk=4) + sc.undo(-1, clk=5))
    out.append(base + sc.commit([(2, 'v1', ())], clk=2) + sc.undo(-1, clk=3) + sc.commit([(2, 'v2', ())], clk=4) + sc.undo(-1, clk=5) + sc.undo(-1, clk=5))
    out.append(base + sc.commit([(1, 'v2', ())], clk=2) + sc.undo(-1, clk=3) + sc.pack(3, False) + sc.undo(-1, clk=4))
    out.append(base + sc.commit([(1, 'v2', ())], clk=2) + sc.undo(-1, clk=3) + sc.pack(2, True) + sc.commit([(1, 'v1', ())], clk=4))
    out.append(base + sc.delete(1, clk=2) + sc.commit([(1, 'v2', ())], clk=3) + sc.undo(-1, clk=4) + sc.undo(-3, clk=5))
    out.append(base + sc.commit([(1, 'v1', ())], clk=2) + sc.undo(-1, clk=3) + sc.reopen() + sc.undo(-1, clk=4))
    while len(out) < n:
        clk = 1
        s = list(base)
        for _ in range(rng.randint(2, 6)):
            clk = min(clk + rng.choice((0, 1, 1)), 7)
            op = rng.random()
            o = rng.randrange(noid)
            if op < 0.35:
                s += sc.commit([(o, rng.choice(('v1', 'v2')), ())], clk=clk)
            elif op < 0.75:
                s += sc.undo(rng.choice((-1, -1, -2, -3)), clk=clk)
            elif op < 0.85:
                s += sc.delete(rng.randrange(1, noid), clk=clk)
            elif op < 0.93:
                s += sc.pack(rng.randint(1, clk), rng.random() < 0.5)
            else:
                s += sc.begin(clk) + [{'a': 'undo', 'k': -1}] + sc.store(o, 'v2') + [{'a': 'vote'}, {'a': 'finish'}]
        out.append(s)
    return out


def part_copy(ctx):
    q = ctx.quick
    cov = {'behaviours': 0, 'copies': 0, 'nontrivial': 0, 'actions': {}, '_seen': set()}
    mc = dict(NOid=2, MaxClock=2, Cls='MCClsPlain')
    copy_mc(ctx, 'copy-pack-2x2', sd.consts('file', MaxTxn=2, MaxRecs=2, AtomVals=('v1',), **mc), 'NextWithPack')
    copy_mc(ctx, 'copy-undo-3x1', sd.consts('file', MaxTxn=3, MaxRecs=1, AtomVals=('v1', 'v2'), **mc), 'NextUndo')
    if not q:
        copy_mc(ctx, 'copy-pack-3x1', sd.consts('file', MaxTxn=3, MaxRecs=1, AtomVals=('v1', 'v2'), **mc), 'NextWithPack', timeout=1800)
        copy_mc(ctx, 'copy-undo-4x1', sd.consts('file', MaxTxn=4, MaxRecs=1, AtomVals=('v1', 'v2'), **mc), 'NextUndo', timeout=1800)
    big = dict(NOid=3, Metas=('m0', 'm1', 'm2'), MaxTxn=7, MaxRecs=3, MaxClock=3)
    n = 60 if q else 1500
    jobs = []
    plan = (('file', 'NextCommit', 'MCCls', 'NoRefs', {}), ('file', 'NextUndo', 'MCCls', 'NoRefs', {}),
            ('file', 'NextPack', 'MCClsPlain', 'FewRefs', {}), ('mapping', 'NextCommit', 'MCClsPlain', 'NoRefs', {'variants': ('ctf', 'blobdest')}),
            ('file', 'NextUndo', 'MCClsPlain', 'NoRefs', {'blobs': True, 'variants': ('ctf',)}),
            ('file', 'NextPack', 'MCClsPlain', 'FewRefs', {'blobs': True, 'variants': ('ctf',)}))
    tags = []
    for k, (kind, nxt, cls, refs, o) in enumerate(plan):
        c = sd.consts(kind, Cls=cls, RefSets=refs, **big)
        tag = '%s-%s%s' % (kind, nxt, '-blobs' if o.get('blobs') else '')
        files = copy_simulate(ctx, tag, c, num=n, depth=70, seed=ctx.seed + 171 + k, next_=nxt)
        jobs += copy_jobs(ctx, files, kind, c, tag, o)
        tags += [tag] * len(files)
    from ..drivers import scripts as sc
    scripts = copy_scripts(random.Random(ctx.seed * 7919 + 17), 40 if q else 600)
    cs = sd.consts('file', **dict(big, MaxTxn=14, MaxRecs=5, MaxClock=8, Cls='MCClsPlain', RefSets='AllRefs'))
    behs = sc.evaluate(ctx, 'copy', scripts, cs)
    half = len(behs) // 2
    jobs += copy_jobs(ctx, behs[:half], 'file', cs, 'scripts')
    jobs += copy_jobs(ctx, behs[half:], 'file', cs, 'scripts-blobs', {'blobs': True, 'variants': ('ctf',)})
    tags += ['scripts'] * half + ['scripts-blobs'] * (len(behs) - half)
    results = par.pmap(rv.copy_behaviour, jobs, chunksize=2)
    by = {}
    for t, r in zip(tags, results):
        by.setdefault(t, []).append(r)
    for t, rs in by.items():
        judge_copy(ctx, rs, t, cov)
    cov.pop('_seen')
    cov['sample'] = results[1]['sig'][:30] if len(results) > 1 else []
    for need in ('with_back', 'with_zero', 'with_packed', 'with_blobrecs'):
        if not cov.get(need):
            raise RuntimeError('vacuous: no copied history %s' % need.replace('_', ' '))
    return cov


def run(ctx):
    clock.install()
    cov_a = part_copy(ctx)
    ev = cov_a['behaviours']
    return ctx.finish({
        'evaluations': ev,
        'distinct_nontrivial': cov_a['nontrivial'],
        'rule': 'TBD',
        'traces_validated_against_impl': ev,
        'copy': cov_a,
        'samples': [cov_a['sample']],
        'exhaustive': False,
    }, ASSUME)
