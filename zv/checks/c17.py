"""C17 - copying or recovering a storage reproduces its full history.

(a) COPY.  TLC checks CopyFaithful / CopyKeepsKinds / CopyRestoresDefined (spec/ZRecover.tla: transcription of
    BaseStorage.copy + FileStorage.restore/_data_find at history level) for every history ZStorage reaches on small
    constants, and along every simulated behaviour.  The behaviours (commit-, undo- and pack-heavy, directed
    scenarios, blob histories) are replayed on a real source storage, copied (copyTransactionsFrom, BaseStorage.copy,
    into/out of blob-enabled storages, mapping -> file) and the copy's full query table - also after close/reopen -
    must equal the table TLC printed for the source history.
(a') RANGES.  dst.copyTransactionsFrom(src.iterator(start)) for every start (ZRecover!CopyRange, RangeCopyFaithful): TLC
    exhibits, with the deviation constants HintRaises / IterNoLoadBlob set to what the code does, a history and a start
    whose range cannot be copied; the counterexamples are replayed on the real storages to choose the model of this
    tree (a confirmed deviation is reported), and every range copy of the selected behaviours must then equal what TLC
    (spec/ZRecoverRange.tla as evaluator) yields for that history, blob set and start.
(b) FSRECOVER.  TLC checks the tool loop (spec/ZRecoverTool.tla) against Terminates, PrefixBeforeDamageRecovered,
    OutputIsOrderedSubsequenceOfInput; data files built from TLC histories are damaged at positions enumerated
    relative to item boundaries, fsrecover.recover runs under a watchdog with its calls recorded, and TLC
    (spec/ZRecoverTrace.tla) validates every recorded run against the loop and judges the output, record for record:
    with EmitsCut (the code as it is) TLC exhibits an output transaction that lacks records of the input transaction;
    directed runs (the transaction pointer of a first / second data-record header overwritten) decide the model.
(c) SCAN.  TLC checks Terminates on the transcription of fsrecover.scan (spec/ZRecoverScan.tla) under weak fairness;
    the lasso it exhibits for the code as it is (F5) is confirmed on the real scan(), and every pattern of the
    model is replayed on byte files: returned position / end of file / hang must be what TLC computed.
"""
import glob
import hashlib
import os
import random

from .. import clock, par, tlc
from ..drivers import recover as rv
from ..drivers import storage as sd

ASSUME = ['TLC results are exhaustive only within the stated constants',
          'source histories are sampled by seeded TLC simulation of ZStorage and by directed scenarios evaluated by TLC',
          'below a pack time only the record chain is judged (same visibility rule as C07; F17)',
          'destination kinds: FileStorage with and without a blob directory (MappingStorage has no restore and refuses '
          'tpc_begin with a status: not a destination)',
          'transaction, persistent, zodbpickle, BTrees trusted as installed']

COPY_INVARIANTS = ['CopyFaithful', 'CopyKeepsKinds', 'CopyRestoresDefined', 'RangeCopyFaithful']


def tlc_run(*a, **kw):
    """zv.tlc.run with a bounded heap (many TLC runs of this check share the machine with other checks); a run that
    the kernel killed (exit -9: memory pressure) is repeated once"""
    import time
    kw.setdefault('heap', '3g')
    try:
        return tlc.run(*a, **kw)
    except tlc.TLCError as ex:
        if '(exit -9)' not in str(ex) and '(exit 137)' not in str(ex):
            raise
        time.sleep(5)
        return tlc.run(*a, **kw)


# ----------------------------------------------------------------------------------------------------
# (a) copy

def copy_consts(c, hint=False, noblob=False):
    return dict(sd.tla_consts(c), HintRaises='TRUE' if hint else 'FALSE', IterNoLoadBlob='TRUE' if noblob else 'FALSE')


def copy_mc(ctx, name, c, next_, timeout=900, hint=False, noblob=False):
    """-> TLCResult (counted by the caller: this runs in a helper thread).  With a deviation constant set to the
    behaviour of the code TLC has to exhibit a history and a start whose range cannot be copied."""
    cfg = os.path.join(ctx.scratch, name + '.cfg')
    tlc.write_cfg(cfg, constants=copy_consts(c, hint, noblob), next_=next_, invariants=COPY_INVARIANTS + ['TidsStrictlyIncrease'], view='View')
    r = tlc_run('MCZRecoverCopy', cfg, workers=6, timeout=timeout)
    if hint or noblob:
        if r.violation != 'RangeCopyFaithful' or not r.trace:
            raise tlc.TLCError('MCZRecoverCopy/%s: expected a counterexample to RangeCopyFaithful, got %s\n%s' % (name, r.violation, r.output[-2000:]))
    elif not r.ok:
        raise tlc.TLCError('MCZRecoverCopy/%s: unexpected violation of %s\n%s' % (name, r.violation, r.output[-3000:]))
    return r


def copy_simulate(ctx, name, c, num, depth, seed, next_):
    """behaviours of ZStorage with the copy invariants checked by TLC in every state -> (TLCResult, files)"""
    wd = os.path.join(ctx.scratch, 'sim-' + name)
    os.makedirs(wd, exist_ok=True)
    cfg = os.path.join(wd, name + '.cfg')
    tlc.write_cfg(cfg, constants=copy_consts(c), next_=next_, invariants=COPY_INVARIANTS)
    outdir = os.path.join(wd, 'out')
    os.makedirs(outdir, exist_ok=True)
    r = tlc_run('MCZRecoverCopy', cfg, workdir=wd, simulate='file=%s/tr,num=%d' % (outdir, num), depth=depth,
                seed=seed, workers=1, timeout=900)
    if not r.ok:
        raise tlc.TLCError('simulation %s: %s\n%s' % (name, r.violation, r.output[-2000:]))
    return r, sorted(glob.glob(os.path.join(outdir, 'tr_*')))


def copy_jobs(ctx, behs, kind, c, tag, opts=None):
    jobs = []
    for i, b in enumerate(behs):
        o = dict(opts or {})
        o.setdefault('pad', (0, 3000, 9000)[(i + ctx.seed) % 3])
        o.setdefault('ranges', (i + ctx.seed) % 5 == 0)
        o.setdefault('range_copy', kind == 'file' and (i + ctx.seed) % 3 == 1)
        o.setdefault('range_blob_dest', (i + ctx.seed) % 2 == 0)
        jobs.append((b, kind, c, os.path.join(ctx.scratch, 'cp-%s-%d' % (tag, i)), o))
    return jobs


def where_of(detail):
    """obs['lb'][0][33]['d']: spec=.. -> 'lb.d' (which column of the query table, without the indexes)"""
    import re
    head = detail.split(': ')[0]
    names = re.findall(r"\['(\w+)'\]", head)
    return '.'.join(names) if names else head[:40]


def judge_copy(ctx, results, tag, cov):
    for r in results:
        cov['behaviours'] += 1
        cov['copies'] += r['copies']
        h = hashlib.sha1('|'.join(r['sig']).encode()).hexdigest()
        if h not in cov['_seen']:
            cov['_seen'].add(h)
            if r['txns'] >= 2:
                cov['nontrivial'] += 1
        for k, v in r['shape'].items():
            if v:
                cov['with_' + k] = cov.get('with_' + k, 0) + 1
        for a, n in r.get('actions', {}).items():
            cov['actions'][a] = cov['actions'].get(a, 0) + n
        if r['source_failed']:
            # the SOURCE storage does not follow ZStorage on this behaviour (a store / undo / pack outcome): that is the
            # subject of C04 / C06 / C07, not of C17 - there is no TLC table for what the source then holds, so the
            # behaviour is not copied.  Counted and noted; too many of them is a machinery failure, never a pass.
            f = r['source_failed']
            cov['source_diverged'] = cov.get('source_diverged', 0) + 1
            if cov['source_diverged'] <= 3:
                ctx.notes.append('[%s] source storage diverges from ZStorage at step %d %s: %s (behaviour %s) - not copied' % (
                    tag, f['step'], f['action'], '; '.join(f['detail']), ' '.join(r['sig'][:40])))
            continue
        seen_here = set()
        for m in r['mismatch']:
            import re
            if m['where'].startswith('copy-raised'):
                what, exc = m['where'].split(':')
                sig = {'part': 'copy', 'source': 'mapping' if tag.startswith('mapping') else 'file', 'what': what, 'exc': exc.split('@')[0], 'at': exc.split('@')[1]}
            else:
                where = where_of(m['detail'][0])
                sig = {'part': 'copy', 'source': 'mapping' if tag.startswith('mapping') else 'file', 'what': m['where'].replace('-reopened', ''), 'where': where}
            key = repr(sorted(sig.items()))
            if key in seen_here:          # the same divergence through another copy variant of the same history
                continue
            seen_here.add(key)
            ctx.violation(sig, '[%s] copy (%s) differs from the source history: %s (behaviour %s)' % (
                tag, m['variant'], '; '.join(m['detail']), ' '.join(r['sig'][:60])),
                replay={'part': 'copy', 'tag': tag, 'variant': m['variant'], 'prefix': r['sig']})


def _range_diff(exp, got):
    """expected {start: (outcome, iterator view)} against the real range copies -> [(start, text)]"""
    out = []
    for r in got:
        want = exp[r['a']]
        if r['out'] != want[0]:
            out.append((r['a'], 'start %d: spec outcome %s, implementation %s%s' % (r['a'], want[0], r['out'], (' at ' + r['at']) if r['at'] else '')))
            continue
        if r['out'] == 'ok':
            d = []
            sd.diff('iter', want[1], r['iter'], d)
            if d or r['blobs']:
                out.append((r['a'], 'start %d: %s' % (r['a'], '; '.join((d + r['blobs'])[:3]))))
    return out


def judge_ranges(ctx, by, cov):
    """dst.copyTransactionsFrom(src.iterator(start)) for every start, judged against what TLC (ZRecoverRange) evaluates.
    1. the two counterexamples TLC produced with a deviation constant set decide which model is the model of this
       tree (and are reported if the code shows the deviation); 2. every other range copy must conform to it."""
    cx = {}
    for name in ('cx:range-hint', 'cx:range-blob'):
        r = by[name][0]
        if r['source_failed'] or 'ranges' not in r:
            raise RuntimeError('the counterexample %s could not be replayed: %r' % (name, r['source_failed']))
        cx[name] = r
    rc = cov['range'] = {'copies': 0, 'histories': 0, 'raised_hint': 0, 'raised_blob': 0, 'with_back_before_start': 0}
    # -- 1. choose HintRaises
    h = cx['cx:range-hint']
    t, (e_code, e_design) = rv.evaluate_ranges(ctx.scratch, 'cx-hint', [(h['hist'], h['blob_oids'], True, False), (h['hist'], h['blob_oids'], False, False)], tlc_run)
    ctx.add_tlc('range-eval-cx-hint', t)
    hint = False
    if not _range_diff(e_code, h['ranges']) and _range_diff(e_design, h['ranges']):
        hint = True
        bad = [r for r in h['ranges'] if r['out'] != 'ok']
        ctx.violation({'part': 'copy', 'what': 'range-copy-raised', 'exc': bad[0]['out'], 'hint_before_start': True},
                      'dst.copyTransactionsFrom(src.iterator(start)) raises %s (%s, in %s) when a record of the range is a back-pointer to a '
                      'transaction before start: TLC counterexample of RangeCopyFaithful (HintRaises) confirmed on the real storages; '
                      'starts %s of the history %s' % (bad[0]['out'], bad[0].get('msg', ''), bad[0]['at'], [r['a'] for r in bad], ' '.join(h['sig'])),
                      replay={'part': 'copy', 'prefix': h['sig'], 'starts': [r['a'] for r in bad]})
    elif _range_diff(e_design, h['ranges']):
        d = _range_diff(e_design, h['ranges'])
        ctx.violation({'part': 'copy', 'what': 'range-copy', 'where': 'counterexample-hint'},
                      'range copy of TLC\'s counterexample is neither the documented nor the known behaviour: %s (history %s)' % (
                          '; '.join(x[1] for x in d[:3]), ' '.join(h['sig'])), replay={'part': 'copy', 'prefix': h['sig']})
    # -- choose IterNoLoadBlob
    b = cx['cx:range-blob']
    t, (e_code, e_design) = rv.evaluate_ranges(ctx.scratch, 'cx-blob', [(b['hist'], b['blob_oids'], hint, True), (b['hist'], b['blob_oids'], hint, False)], tlc_run)
    ctx.add_tlc('range-eval-cx-blob', t)
    noblob = False
    if not _range_diff(e_code, b['ranges']) and _range_diff(e_design, b['ranges']):
        noblob = True
        bad = [r for r in b['ranges'] if r['out'] != 'ok']
        ctx.violation({'part': 'copy', 'what': 'range-copy-raised', 'exc': bad[0]['out'], 'blob_in_range': True},
                      'blob-enabled dst.copyTransactionsFrom(src.iterator(start)) raises %s (%s, in %s) when the range holds a blob record: '
                      'TLC counterexample of RangeCopyFaithful (IterNoLoadBlob) confirmed on the real storages; starts %s of the history %s' % (
                          bad[0]['out'], bad[0].get('msg', ''), bad[0]['at'], [r['a'] for r in bad], ' '.join(b['sig'])),
                      replay={'part': 'copy', 'prefix': b['sig'], 'starts': [r['a'] for r in bad], 'blobs': True})
    elif _range_diff(e_design, b['ranges']):
        d = _range_diff(e_design, b['ranges'])
        ctx.violation({'part': 'copy', 'what': 'range-copy', 'where': 'counterexample-blob'},
                      'range copy of TLC\'s blob counterexample is neither the documented nor the known behaviour: %s (history %s)' % (
                          '; '.join(x[1] for x in d[:3]), ' '.join(b['sig'])), replay={'part': 'copy', 'prefix': b['sig'], 'blobs': True})
    rc['model'] = {'HintRaises': hint, 'IterNoLoadBlob': noblob}
    # -- 2. every range copy of every selected behaviour against the model of this tree
    sel = [(t, r) for t, rs in by.items() if not t.startswith('cx:') for r in rs if r.get('ranges')]
    if not sel:
        raise RuntimeError('vacuous: no range copies')
    cases = [(r['hist'], r['blob_oids'], hint, noblob and r['blob_dest']) for t, r in sel]
    t, exps = rv.evaluate_ranges(ctx.scratch, 'all', cases, tlc_run)
    ctx.add_tlc('range-eval', t)
    for (tag, r), exp in zip(sel, exps):
        rc['histories'] += 1
        rc['copies'] += len(r['ranges'])
        rc['raised_hint'] += sum(1 for x in r['ranges'] if x['out'] == 'UndoError')
        rc['raised_blob'] += sum(1 for x in r['ranges'] if x['out'] == 'AttributeError')
        rc['with_back_before_start'] += any(rec['op'] == 'back' for tx in r['hist'][1:] for rec in tx['recs'])
        d = _range_diff(exp, r['ranges'])
        if d:
            want = exp[d[0][0]][0]
            got = next(x['out'] for x in r['ranges'] if x['a'] == d[0][0])
            sig = {'part': 'copy', 'what': 'range-copy', 'spec': want, 'impl': got}
            if want == got:
                sig['where'] = where_of(d[0][1].split(': ', 1)[1])
            ctx.violation(sig, '[%s] copy of the range src.iterator(start) differs from what ZRecover!CopyRange yields (HintRaises=%s, IterNoLoadBlob=%s): '
                          '%s (behaviour %s)' % (tag, hint, noblob and r['blob_dest'], '; '.join(x[1] for x in d[:3]), ' '.join(r['sig'][:60])),
                          replay={'part': 'copy', 'tag': tag, 'prefix': r['sig'], 'starts': [x[0] for x in d]})
    if not rc['with_back_before_start']:
        raise RuntimeError('vacuous: no range copy of a history with back-pointer records')


def copy_scripts(rng, n, noid=3):
    """directed scenarios: modify / undo / undo of the undo / un-creation / deletion / re-creation, with and
    without a pack in the middle - the shapes whose copy needs back-pointers re-derived"""
    from ..drivers import scripts as sc
    out = []
    base = sc.commit([(0, 'v1', (1,)), (1, 'v1', ())], clk=1)
    out.append(base + sc.commit([(1, 'v2', ())], clk=2) + sc.undo(-1, clk=3) + sc.undo(-1, clk=4) + sc.undo(-1, clk=5))
    out.append(base + sc.commit([(2, 'v1', ())], clk=2) + sc.undo(-1, clk=3) + sc.commit([(2, 'v2', ())], clk=4) + sc.undo(-1, clk=5) + sc.undo(-1, clk=5))
    out.append(base + sc.commit([(1, 'v2', ())], clk=2) + sc.undo(-1, clk=3) + sc.pack(3, False) + sc.undo(-1, clk=4))
    out.append(base + sc.commit([(1, 'v2', ())], clk=2) + sc.undo(-1, clk=3) + sc.pack(2, True) + sc.commit([(1, 'v1', ())], clk=4))
    out.append(base + sc.delete(1, clk=2) + sc.commit([(1, 'v2', ())], clk=3) + sc.undo(-1, clk=4) + sc.undo(-3, clk=5))
    out.append(base + sc.commit([(1, 'v1', ())], clk=2) + sc.undo(-1, clk=3) + sc.reopen() + sc.undo(-1, clk=4))
    while len(out) < n:
        clk = 1
        s = list(base)
        for _ in range(rng.randint(2, 6)):
            clk = min(clk + rng.choice((0, 1, 1)), 7)
            op = rng.random()
            o = rng.randrange(noid)
            if op < 0.35:
                s += sc.commit([(o, rng.choice(('v1', 'v2')), ())], clk=clk)
            elif op < 0.75:
                s += sc.undo(rng.choice((-1, -1, -2, -3)), clk=clk)
            elif op < 0.85:
                s += sc.delete(rng.randrange(1, noid), clk=clk)
            elif op < 0.93:
                s += sc.pack(rng.randint(1, clk), rng.random() < 0.5)
            else:
                s += sc.begin(clk) + [{'a': 'undo', 'k': -1}] + sc.store(o, 'v2') + [{'a': 'vote'}, {'a': 'finish'}]
        out.append(s)
    return out


BIG = dict(NOid=3, Metas=('m0', 'm1', 'm2'), MaxTxn=7, MaxRecs=3, MaxClock=3)
PLAN = (('file', 'NextCommit', 'MCCls', 'NoRefs', {}), ('file', 'NextUndo', 'MCCls', 'NoRefs', {}),
        ('file', 'NextPack', 'MCClsPlain', 'FewRefs', {}), ('mapping', 'NextCommit', 'MCClsPlain', 'NoRefs', {'variants': ('ctf', 'blobdest')}),
        ('file', 'NextUndo', 'MCClsPlain', 'NoRefs', {'blobs': True, 'variants': ('ctf',)}),
        ('file', 'NextPack', 'MCClsPlain', 'FewRefs', {'blobs': True, 'variants': ('ctf',)}))


def plan_tag(kind, nxt, o):
    return '%s-%s%s' % (kind, nxt, '-blobs' if o.get('blobs') else '')


def copy_tlc_jobs(ctx):
    """(name, callable) for every TLC run of part (a)"""
    q = ctx.quick
    mc = dict(NOid=2, MaxClock=2, Cls='MCClsPlain')
    jobs = [('mc:copy-pack-2x2', lambda: copy_mc(ctx, 'copy-pack-2x2', sd.consts('file', MaxTxn=2, MaxRecs=2, AtomVals=('v1',), **mc), 'NextWithPack')),
            ('mc:copy-undo-3x1', lambda: copy_mc(ctx, 'copy-undo-3x1', sd.consts('file', MaxTxn=3, MaxRecs=1, AtomVals=('v1', 'v2'), **mc), 'NextUndo'))]
    jobs += [('cx:range-hint', lambda: copy_mc(ctx, 'range-hint-as-code', sd.consts('file', MaxTxn=3, MaxRecs=1, AtomVals=('v1', 'v2'), **mc), 'NextUndo', hint=True)),
             ('cx:range-blob', lambda: copy_mc(ctx, 'range-blob-as-code', sd.consts('file', MaxTxn=3, MaxRecs=1, AtomVals=('v1', 'v2'), **mc), 'NextUndo', noblob=True))]
    if not q:
        jobs += [('mc:copy-pack-3x1', lambda: copy_mc(ctx, 'copy-pack-3x1', sd.consts('file', MaxTxn=3, MaxRecs=1, AtomVals=('v1',), **mc), 'NextWithPack', timeout=1800)),
                 ('mc:copy-undo-4x1', lambda: copy_mc(ctx, 'copy-undo-4x1', sd.consts('file', MaxTxn=4, MaxRecs=1, AtomVals=('v1', 'v2'), **mc), 'NextUndo', timeout=1800))]
    n = 60 if q else 800
    for k, (kind, nxt, cls, refs, o) in enumerate(PLAN):
        c = sd.consts(kind, Cls=cls, RefSets=refs, **BIG)
        tag = plan_tag(kind, nxt, o)
        jobs.append(('sim:' + tag, (lambda tag=tag, c=c, k=k, nxt=nxt: copy_simulate(ctx, tag, c, num=n, depth=70, seed=ctx.seed + 171 + k, next_=nxt))))
    return jobs


def eval_scripts(ctx):
    from ..drivers import scripts as sc
    scripts = copy_scripts(random.Random(ctx.seed * 7919 + 17), 40 if ctx.quick else 300)
    cs = sd.consts('file', **dict(BIG, MaxTxn=14, MaxRecs=5, MaxClock=8, Cls='MCClsPlain', RefSets='AllRefs'))
    return cs, sc.evaluate(ctx, 'copy', scripts, cs)


def part_copy(ctx, done, replay=True):
    q = ctx.quick
    cov = {'behaviours': 0, 'copies': 0, 'nontrivial': 0, 'actions': {}, '_seen': set()}
    jobs, tags = [], []
    sims, consts_of = {}, {}
    for name, r in done.items():
        if isinstance(name, str) and name.startswith('mc:'):
            ctx.add_tlc(name[3:], r)
    for k, (kind, nxt, cls, refs, o) in enumerate(PLAN):
        c = sd.consts(kind, Cls=cls, RefSets=refs, **BIG)
        tag = plan_tag(kind, nxt, o)
        r, files = done['sim:' + tag]
        ctx.model['runs'].append(dict(r.summary(), name='simulate-' + tag))
        ctx.model['transitions'] += r.states_generated
        jobs += copy_jobs(ctx, files, kind, c, tag, o)
        tags += [tag] * len(files)
        if kind == 'file' and not o.get('blobs'):
            sims[tag], consts_of[tag] = files, c
    cs, behs = done['scripts']
    sims['scripts'], consts_of['scripts'] = behs, cs
    if not replay:
        return None, sims, consts_of
    half = len(behs) // 2
    jobs += copy_jobs(ctx, behs[:half], 'file', cs, 'scripts')
    jobs += copy_jobs(ctx, behs[half:], 'file', cs, 'scripts-blobs', {'blobs': True, 'variants': ('ctf',)})
    tags += ['scripts'] * half + ['scripts-blobs'] * (len(behs) - half)
    # TLC's counterexamples to RangeCopyFaithful (deviation constants set) are replayed like any behaviour
    cxc = sd.consts('file', MaxTxn=3, MaxRecs=1, AtomVals=('v1', 'v2'), NOid=2, MaxClock=2, Cls='MCClsPlain')
    for name, o in (('cx:range-hint', {}), ('cx:range-blob', {'blobs': True})):
        ctx.add_tlc(name[3:] + '-as-code', done[name])
        steps = [{'action': st['action'], 'args': st['args'], 'state': st['state']} for st in done[name].trace]
        jobs.append((steps, 'file', cxc, os.path.join(ctx.scratch, 'cp-' + name[3:]), dict(o, variants=('ctf',), range_copy=True, pad=0)))
        tags.append(name)
    results = par.pmap(rv.copy_behaviour, jobs, chunksize=2)
    by = {}
    for t, r in zip(tags, results):
        by.setdefault(t, []).append(r)
    for t, rs in by.items():
        judge_copy(ctx, rs, t, cov)
    judge_ranges(ctx, by, cov)
    cov.pop('_seen')
    cov['sample'] = results[1]['sig'][:30] if len(results) > 1 else []
    if cov.get('source_diverged', 0) * 20 > cov['behaviours']:
        raise RuntimeError('%d of %d source replays diverge from ZStorage (see C04/C06/C07): no basis for judging copies' % (
            cov['source_diverged'], cov['behaviours']))
    for need in ('with_back', 'with_zero', 'with_packed', 'with_blobrecs'):
        if not cov.get(need):
            raise RuntimeError('vacuous: no copied history %s' % need.replace('_', ' '))
    return cov, sims, consts_of


# ----------------------------------------------------------------------------------------------------
# (c) scan()

SCAN_INV = ['TypeOK', 'ScanForward', 'ScanAfterDot']


def scan_configs(q):
    small = dict(CHUNK=12, LOOK=8, Near=100, Extra='{}', Fills='{"zero", "ff"}', Starts='{0, 4, 11}')
    real = dict(CHUNK=8096, LOOK=8, Extra='{46, 47}', Fills='{"zero", "ff"}', Starts='{4, 8090}')
    if q:
        return [('small', dict(small, Lens='{0, 3, 8, 9, 10, 12, 13, 17, 20, 21, 24, 25, 29}', MaxDots=2)),
                ('real', dict(real, Lens='{8095, 8097, 8105, 16201, 16210}', Near=4, MaxDots=2))]
    return [('small', dict(small, Lens='{' + ', '.join(str(i) for i in range(31)) + '}', MaxDots=2)),
            ('small3', dict(small, Lens='{9, 13, 21, 25}', MaxDots=3)),
            ('real', dict(real, Lens='{8095, 8096, 8097, 8105, 16200, 16210, 24300}', Near=12, MaxDots=1)),
            ('real2', dict(real, Lens='{8100, 8104, 8109, 16201}', Near=9, MaxDots=2))]


def scan_tlc(ctx, name, c, as_code, graph=False):
    """-> (TLCResult, path of the dumped graph | None).  The graph of the transcription as the code is comes from a
    run without the liveness property (TLC stops at the first lasso, before the graph is complete)."""
    wd = os.path.join(ctx.scratch, 'scan-%s-%s%s' % (name, 'code' if as_code else 'fixed', '-graph' if graph else ''))
    os.makedirs(wd, exist_ok=True)
    cfg = os.path.join(wd, 'scan.cfg')
    live = not (as_code and graph)
    tlc.write_cfg(cfg, constants=dict(c, AsCode='TRUE' if as_code else 'FALSE'), spec='Spec', invariants=SCAN_INV,
                  properties=['Terminates'] if live else [])
    dot = os.path.join(wd, 'g.dot') if (graph or not as_code) else None
    r = rv.run_tlc('ZRecoverScan', cfg, wd, workers=4, dump=dot, timeout=900)
    return r, dot


def kind_of(x):
    return x if isinstance(x, str) and x == 'hang' else 'raised' if isinstance(x, str) else 'eof' if x == 0 else 'found'


def part_scan(ctx, runs):
    cov = {'patterns': 0, 'hang': 0, 'found': 0, 'eof': 0, 'configs': {}}
    # 1. the repaired transcription terminates; the transcription of the code as it is does not (F5): TLC's lasso
    lasso = None
    for (name, as_code, graph), (c, (r, dot)) in sorted(runs.items()):
        ctx.add_tlc('scan-%s-%s%s' % (name, 'as-code' if as_code else 'repaired', '-graph' if graph else ''), r)
        if graph:
            if not r.ok:
                raise tlc.TLCError('ZRecoverScan (graph) %s: %s\n%s' % (name, r.violation, r.output[-2000:]))
        elif not as_code:
            if not r.ok:
                raise tlc.TLCError('ZRecoverScan (repaired) %s: %s\n%s' % (name, r.violation, r.output[-2000:]))
        else:
            if r.violation != 'Terminates' or r.back_to is None:
                raise tlc.TLCError('ZRecoverScan (as the code is) %s: expected a lasso violating Terminates, got %s\n%s' % (
                    name, r.violation, r.output[-2000:]))
            if lasso is None or name == 'small':
                st = rv.norm(r.trace[0]['state'])
                lasso = (name, c, {'n': st['n'], 'fill': st['fill'], 'dots': sorted(st['dots']), 'start': st['start'],
                                   'loop': [(rv.norm(x['state'])['pos'], rv.norm(x['state'])['phase']) for x in r.trace[r.back_to - 1:]]})
    # 2. the lasso on the real scan(): a file on disk with the model's dot / fill pattern
    name, c, L = lasso
    got = rv.real_scan(rv.pattern_bytes(L['n'], L['fill'], L['dots']), L['start'], c['CHUNK'], on_disk=os.path.join(ctx.scratch, 'lasso.bin'))
    as_code = got == 'hang'
    cov['lasso'] = dict(L, config=name, real_scan=got)
    if as_code:
        ctx.violation({'tool': 'fsrecover', 'what': 'hang', 'dot_in_last_8': any(d >= L['n'] - 8 for d in L['dots'])},
                      'fsrecover.scan does not terminate: TLC lasso of ZRecoverScan (AsCode) confirmed on the real scan(): file of %d '
                      'bytes (fill %s) with \'.\' at %s, scan from %d never returns (loop %s)' % (L['n'], L['fill'], L['dots'], L['start'], L['loop']),
                      replay={'part': 'scan', 'pattern': L, 'chunk': c['CHUNK']})
    # 3. conformance: every pattern of every configuration, against the model of this tree
    jobs, meta = [], []
    for (name, ac, graph), (c, (r, dot)) in sorted(runs.items()):
        if dot is None:
            continue
        if ac != as_code:
            os.remove(dot)
            continue
        table, nodes = rv.load_scan_graph(dot)
        os.remove(dot)
        if nodes != r.distinct:
            raise RuntimeError('scan graph %s: %d states dumped, TLC reports %d' % (name, nodes, r.distinct))
        cases = [(k[0], k[1], k[2], k[3], v) for k, v in sorted(table.items())]
        if len(cases) < 100:
            raise RuntimeError('scan graph %s: only %d initial states' % (name, len(cases)))
        cov['configs'][name] = {'patterns': len(cases), 'states': r.distinct, 'chunk': c['CHUNK']}
        for j, ch in enumerate(par.chunks(cases, 32)):
            jobs.append((ch, c['CHUNK'], os.path.join(ctx.scratch, 'scanrp-%s-%d' % (name, j))))
            meta.append(name)
    results = par.pmap(rv.scan_replay, jobs)
    for name, r in zip(meta, results):
        cov['patterns'] += r['n']
        cov['hang'] += r['hangs']
        cov['found'] += r['found']
        cov['eof'] += r['eof']
        for m in r['mismatch']:
            if m['impl'] == 'hang':
                sig = {'tool': 'fsrecover', 'what': 'hang', 'dot_in_last_8': any(d >= m['n'] - 8 for d in m['dots'])}
            else:
                ks, ki = kind_of(m['spec']), kind_of(m['impl'])
                sig = {'tool': 'fsrecover', 'what': 'scan-result', 'spec': ks, 'impl': ki if ki != ks else ki + '-elsewhere'}
            ctx.violation(sig, 'fsrecover.scan differs from its transcription (%s, AsCode=%s): file of %d bytes (fill %s) with \'.\' at %s, '
                          'scan from %d: spec %s, real %s' % (name, as_code, m['n'], m['fill'], m['dots'], m['start'], m['spec'], m['impl']),
                          replay={'part': 'scan', 'pattern': m})
    cov['as_code'] = as_code
    if not (cov['found'] and cov['eof']):
        raise RuntimeError('vacuous scan replay: %r' % cov)
    return cov


# ----------------------------------------------------------------------------------------------------
# (b) fsrecover

TOOL_REAL = {'MAGIC': 4, 'FH': 23, 'LENOFF': 8, 'LENSZ': 8, 'TR': 8}
TOOL_INV = ['TTypeOK', 'OutputOK', 'PrefixOK', 'IdenticalOK']


def tool_mc(ctx, emits_cut=False):
    """the tool loop against the three clauses; with EmitsCut (the code as it is) TLC has to exhibit an output
    transaction that lacks records of the input transaction"""
    name = 'tool-mc' + ('-as-code' if emits_cut else '')
    cfg = os.path.join(ctx.scratch, name + '.cfg')
    tlc.write_cfg(cfg, constants={'Files': '<- MCFiles', 'MAGIC': 1, 'FH': 3, 'LENOFF': 1, 'LENSZ': 1, 'TR': 1,
                                  'EmitsCut': 'TRUE' if emits_cut else 'FALSE'}, spec='TSpec',
                  invariants=TOOL_INV, properties=['Terminates'])
    r = rv.run_tlc('MCZRecoverTool', cfg, os.path.join(ctx.scratch, name), workers=4, timeout=900)
    if emits_cut:
        last = rv.norm(r.trace[-1]['state']) if r.trace else {}
        if r.violation != 'OutputOK' or not any(not o['whole'] for o in last.get('out', ())):
            raise tlc.TLCError('ZRecoverTool (EmitsCut): expected a counterexample to OutputOK with a cut transaction, got %s\n%s' % (r.violation, r.output[-2000:]))
    elif not r.ok:
        raise tlc.TLCError('ZRecoverTool: %s\n%s' % (r.violation, r.output[-3000:]))
    return r


def validate_runs(ctx, name, files, runs, emits_cut):
    """one TLC run of ZRecoverTrace over a batch of recorded runs -> {run number: (verdict, at, why)}"""
    import json
    wd = os.path.join(ctx.scratch, 'trace-' + name)
    os.makedirs(wd, exist_ok=True)
    tf = os.path.join(wd, 'runs.json')
    with open(tf, 'w') as f:
        json.dump({'files': files, 'runs': runs}, f)
    cfg = os.path.join(wd, 'trace.cfg')
    tlc.write_cfg(cfg, constants=dict(TOOL_REAL, Files='{}', EmitsCut='TRUE' if emits_cut else 'FALSE'), init='TrInit', next_='TrNext')
    r = tlc_run('ZRecoverTrace', cfg, workdir=wd, workers=2, timeout=1500, env={'TRACE_FILE': tf})
    if not r.ok:
        raise tlc.TLCError('trace validation %s: %s\n%s' % (name, r.violation, r.output[-3000:]))
    verdicts = {}
    for v in tlc.printed_values(r.output):
        if len(v) == 5 and v[0] == 'V':
            verdicts[v[1]] = (v[2], v[3], v[4])
    if len(verdicts) != len(runs):
        raise tlc.TLCError('trace validation %s: %d verdicts for %d runs\n%s' % (name, len(verdicts), len(runs), r.output[-2000:]))
    os.remove(tf)
    return r, verdicts


def dmg_text(d):
    return 'undamaged' if d[0] == 'none' else 'truncated at %d' % d[1] if d[0] == 'cut' else 'bytes [%d, %d) overwritten with %s' % (d[1], d[2], d[3])


def part_recover(ctx, sim_files, consts_of, cut_cx):
    q = ctx.quick
    rng = random.Random(ctx.seed * 104729 + 5)
    # 1. data files from TLC histories (undo records, un-creations, packed prefixes; some spread over several read chunks)
    want = 6 if q else 14
    cand = []
    for tag, files in sim_files.items():
        fs = list(files)
        rng.shuffle(fs)
        cand += [(f, tag) for f in fs[:want * 3]]
    rng.shuffle(cand)
    jobs = []
    for i, (f, tag) in enumerate(cand):
        jobs.append((f, consts_of[tag], os.path.join(ctx.scratch, 'src-%d' % i), {'pad': (0, 0, 3000, 9000)[i % 4], 'min_txns': 3}))
    built = [b for b in par.pmap(rv.build_source, jobs, chunksize=2) if b is not None and 'failed' not in b]
    # variety first: undo back-pointers, un-creations, packed prefixes, files longer than one read chunk, short files
    feats = (lambda b: b['backs'] > 0 and b['multi'] > 0, lambda b: b['packed'] > 0, lambda b: len(b['data']) > 9000 and b['multi'] > 0, lambda b: b['zeros'] > 0,
             lambda b: len(b['data']) <= 2500 and b['ntx'] >= 4, lambda b: b['backs'] > 1 and len(b['data']) > 9000)
    built.sort(key=lambda b: -b['ntx'])
    sources = []
    while len(sources) < want and built:
        f = feats[len(sources) % len(feats)]
        pick = next((b for b in built if f(b)), built[0])
        built.remove(pick)
        sources.append(pick)
    if len(sources) < min(want, 3):
        raise RuntimeError('only %d usable source files' % len(sources))
    # 2. damages, enumerated relative to the item boundaries of each file
    jobs, files, directed = [], [], []
    total = every_n = 0
    for i, b in enumerate(sources):
        txns = rv.parse_fs(b['data'])
        files.append(rv.extents(txns))
        every = (not q) and len(b['data']) <= 2500 and every_n < 4
        every_n += every
        dm = rv.enumerate_damages(txns, len(b['data']), every, rng, budget=700 if q else 6000)
        # the concretisation of TLC's counterexample (ZRecoverTool with EmitsCut: a transaction whose record bytes are damaged
        # comes out without some of its records): the transaction pointer in the header of a second / of a first data record
        for t in txns:
            if len(t['recs']) >= 2:
                directed += [(i, ('fill', t['recs'][1]['pos'] + 24, t['recs'][1]['pos'] + 32, 'ff')), (i, ('fill', t['recs'][0]['pos'] + 24, t['recs'][0]['pos'] + 32, 'ff'))]
                dm = [dm[0]] + [d[1] for d in directed[-2:]] + [d for d in dm[1:] if d not in (directed[-1][1], directed[-2][1])]
                break
        total += len(dm)
        model = (b['obs'], b['hist'], b['consts'])
        for j, ch in enumerate(par.chunks(dm, max(1, len(dm) // 40))):
            jobs.append((i, b['data'], ch, os.path.join(ctx.scratch, 'rec-%d-%d' % (i, j)), ctx.seed, model))
    results = [r for rs in par.pmap(rv.recover_cases, jobs) for r in rs]
    if not directed:
        raise RuntimeError('vacuous: no source file holds a transaction with two records')
    # the model of this tree: does the real recover() show the deviation TLC exhibited with EmitsCut?
    dres = [r for r in results if (r['run']['f'] - 1, tuple(r['dmg'])) in {(i, tuple(d)) for i, d in directed}]
    if len(dres) != len(directed):
        raise RuntimeError('%d of %d directed runs found' % (len(dres), len(directed)))
    emits_cut = any(r['cut'] for r in dres)
    # 3. TLC validates every recorded run against ZRecoverTool and judges its output
    cov = {'files': len(sources), 'runs': len(results), 'hangs': 0, 'crashes': 0, 'altered_outputs': 0, 'with_scan': 0, 'accepted': 0,
           'file_sizes': [len(b['data']) for b in sources], 'file_txns': [b['ntx'] for b in sources],
           'files_with_backpointers': sum(1 for b in sources if b['backs']), 'files_packed': sum(1 for b in sources if b['packed']),
           'files_with_uncreation': sum(1 for b in sources if b['zeros']),
           'by_kind': {}, 'events': {}, 'rejected': {}, 'every_byte_files': every_n, 'cut_outputs': 0, 'aborts_for_missing_hint': 0,
           'model': {'EmitsCut': emits_cut}, 'directed_runs': len(dres),
           'tlc_counterexample_cut': [str(o) for o in rv.norm(cut_cx.trace[-1]['state'])['out']]}
    batches = par.chunks(list(range(len(results))), max(1, len(results) // 20000 + 1))
    for bi, idx in enumerate(batches):
        r, verdicts = validate_runs(ctx, 'b%d' % bi, files, [results[i]['run'] for i in idx], emits_cut)
        ctx.add_tlc('recover-trace-validation-%d' % bi, r)
        for n, i in enumerate(idx):
            res = results[i]
            v, at, why = verdicts[n + 1]
            kind = res['dmg'][0] if res['dmg'][0] != 'fill' else 'fill-' + res['dmg'][3]
            cov['by_kind'][kind] = cov['by_kind'].get(kind, 0) + 1
            cov['hangs'] += res['how'] == 'hang'
            cov['crashes'] += res['how'].startswith('crash')
            cov['altered_outputs'] += res['altered'] > 0
            cov['cut_outputs'] += res['cut'] > 0
            cov['aborts_for_missing_hint'] += res['hint_aborts']
            cov['with_scan'] += res['scans'] > 0
            for e in res['run']['ev']:
                kk = 'hdr-' + e['r'] if e['k'] == 'hdr' else ('copy-same' if e['same'] else 'copy-altered' if e['whole'] else 'copy-cut') if e['k'] == 'copy' else e['k']
                cov['events'][kk] = cov['events'].get(kk, 0) + 1
            if res['table']:
                ctx.violation({'tool': 'fsrecover', 'what': 'undamaged-recovery-differs', 'where': where_of(res['table'][0])},
                              'recovery of the undamaged file %d answers differently from the table TLC printed: %s (history %s)' % (
                                  res['run']['f'], '; '.join(res['table'][:3]), ' '.join(sources[res['run']['f'] - 1]['sig'][:50])),
                              replay={'part': 'recover', 'history': sources[res['run']['f'] - 1]['sig'], 'damage': res['dmg']})
            if v == 'accept':
                cov['accepted'] += 1
                continue
            if why in ('hang', 'scan-hang'):
                sig = {'tool': 'fsrecover', 'what': 'hang', 'dot_in_last_8': bool(res['dot8'])}
            elif why in ('copy-cut', 'transaction-emitted-without-all-its-records'):
                sig = {'tool': 'fsrecover', 'what': 'transaction-emitted-without-all-its-records'}
            else:
                sig = {'tool': 'fsrecover', 'what': why, 'damage': 'none' if res['dmg'][0] == 'none' else 'truncation' if res['dmg'][0] == 'cut' else 'bytes'}
            ev = res['run']['ev']
            key = repr(sorted(sig.items()))
            cov['rejected'][key] = cov['rejected'].get(key, 0) + 1
            if cov['rejected'][key] > 3:          # the same signature: counted, three of them written out as replays
                continue
            ctx.violation(sig, 'fsrecover.recover on file %d (%d bytes, %d transactions), %s: ZRecoverTrace rejects the run at event %d (%s): %s; '
                          'ended by %s; events %s' % (res['run']['f'], len(sources[res['run']['f'] - 1]['data']), sources[res['run']['f'] - 1]['ntx'],
                                                      dmg_text(res['dmg']), at, why, _ev_text(ev[at - 1]) if 0 < at <= len(ev) else '-',
                                                      res['how'], ' '.join(_ev_text(e) for e in ev[:40])),
                          replay={'part': 'recover', 'history': sources[res['run']['f'] - 1]['sig'], 'damage': res['dmg'], 'seed': ctx.seed})
    cov['sample'] = {'damage': dmg_text(results[len(results) // 2]['dmg']), 'events': [_ev_text(e) for e in results[len(results) // 2]['run']['ev']]}
    if not (cov['with_scan'] and cov['altered_outputs'] and cov['by_kind'].get('none')):
        raise RuntimeError('vacuous recovery runs: %r' % cov)
    # every step of ZRecoverTool that undamaged or uniformly filled bytes can produce must have been taken by some run
    # (HeaderUndone and Crash need a lucky noise byte / an unhandled exception: counted, not demanded)
    for need in ('open', 'die', 'hdr-ok', 'hdr-err', 'hdr-eof', 'scan', 'copy-same', 'copy-altered', 'abort', 'end'):
        if not cov['events'].get(need):
            raise RuntimeError('vacuous: no recorded run took the step %s of ZRecoverTool (%r)' % (need, cov['events']))
    cov['steps_never_taken'] = [k for k in ('hdr-undone', 'crash') if not cov['events'].get(k)]
    return cov


def _ev_text(e):
    if e['k'] == 'hdr':
        return 'hdr@%d:%s' % (e['p'], e['r']) + ('->%d(id %d)' % (e['q'], e['t']) if e['r'] in ('ok', 'undone') else '')
    if e['k'] == 'scan':
        return 'scan@%d->%d' % (e['p'], e['q'])
    if e['k'] == 'copy':
        return 'copy(%s)' % ('same' if e['same'] else 'altered' if e.get('whole') else 'cut: records missing')
    return e['k']


def run(ctx):
    from concurrent.futures import ThreadPoolExecutor
    clock.install()
    # every TLC run that needs only the specifications is started at once (helper threads; all joined before
    # the replay workers are forked)
    import time
    t0 = time.time()
    jobs = copy_tlc_jobs(ctx) + [('tool-mc', lambda: tool_mc(ctx)), ('tool-mc-cut', lambda: tool_mc(ctx, True)), ('scripts', lambda: eval_scripts(ctx))]
    for name, c in scan_configs(ctx.quick):
        for ac, graph in ((False, False), (True, False), (True, True)):
            jobs.append((('scan', name, ac, graph), (lambda name=name, c=c, ac=ac, graph=graph: (c, scan_tlc(ctx, name, c, ac, graph)))))
    with ThreadPoolExecutor(max_workers=8 if ctx.quick else 6) as ex:
        futs = [(name, ex.submit(fn)) for name, fn in jobs]
        done = {name: f.result() for name, f in futs}
    ctx.add_tlc('recover-tool-loop', done['tool-mc'])
    ctx.add_tlc('recover-tool-loop-as-code', done['tool-mc-cut'])
    wall = {'tlc_phase': round(time.time() - t0, 1)}
    parts = os.environ.get('ZV_C17_PARTS', 'abc')          # developer knob: run only some parts (never a verdict: exit 2)
    t1 = time.time()
    cov_a, sims, consts_of = part_copy(ctx, done, replay='a' in parts)
    wall['copy'] = round(time.time() - t1, 1)
    t1 = time.time()
    cov_c = part_scan(ctx, {k[1:]: v for k, v in done.items() if isinstance(k, tuple)}) if 'c' in parts else None
    wall['scan'] = round(time.time() - t1, 1)
    t1 = time.time()
    cov_b = part_recover(ctx, sims, consts_of, done['tool-mc-cut']) if 'b' in parts else None
    wall['recover'] = round(time.time() - t1, 1)
    if parts != 'abc':
        ctx.finish({'evaluations': 0, 'samples': ['partial run'], 'states': 1, 'transitions': 1, 'traces_validated_against_impl': 0,
                    'partial': {'copy': cov_a, 'recover': cov_b, 'scan': cov_c}}, ['partial developer run'])
        raise RuntimeError('partial run (ZV_C17_PARTS=%s): not a verdict' % parts)
    ev = cov_a['behaviours'] + cov_b['runs'] + cov_c['patterns']
    return ctx.finish({
        'evaluations': ev,
        'distinct_nontrivial': cov_a['nontrivial'] + cov_b['with_scan'] + cov_c['found'] + cov_c['hang'],
        'rule': '(a) TLC behaviours of ZStorage (commit-, undo-, pack-heavy simulation with the copy invariants checked in every state, '
                'directed scenarios evaluated by TLC, half of them with blob records) replayed on a real source storage, copied '
                '(copyTransactionsFrom, BaseStorage.copy, into a blob-enabled FileStorage, blob storage to blob storage, MappingStorage to '
                'FileStorage) and the full query table of the copy, before and after reopen, compared with the table TLC printed; for a '
                'third of them every range src.iterator(start) is copied too and compared with what TLC evaluates (ZRecoverRange); distinct '
                'by action sequence, non-trivial = at least 2 committed transactions.  (b) data files of TLC histories damaged at positions '
                'enumerated relative to item boundaries (quick) / at every byte (thorough), fsrecover.recover run under watchdogs with its '
                'calls recorded, every recorded run validated by TLC against ZRecoverTool and its output judged (ZRecoverTrace); non-trivial '
                '= the run needed scan().  (c) every dot/fill pattern of the ZRecoverScan configurations replayed on the real scan(); '
                'non-trivial = scan found a position or does not terminate',
        'traces_validated_against_impl': ev,
        'copy': cov_a, 'recover': cov_b, 'scan': cov_c, 'wall_by_part_s': wall,
        'samples': [cov_a['sample'], cov_b['sample'], cov_c['lasso']],
        'exhaustive': False,
    }, ASSUME + ['(b) A1: a transaction whose length field or redundant length is damaged never passes the header checks; A2: no position '
                 'other than a transaction boundary passes them (both would show as a rejected run, not be hidden)',
                 '(b) a transaction is exempt from "unchanged" when the damaged range meets its own bytes or the bytes of an earlier record '
                 'its back-pointers lead through; bytes the fill did not change are not damaged; an abnormal end of the tool while it '
                 'handles damaged bytes counts as an end (counted as crashes)',
                 '(b) single damaged range or truncation per run; fills 0x00, 0xff, \'.\', seeded noise',
                 '(b) "record for record": an output transaction must have as many records as the input transaction it was read from; '
                 'altered bytes inside a transaction that overlaps the damage stay exempt (no checksum in the format)',
                 '(a) a behaviour on which the source storage itself diverges from ZStorage (C04/C06/C07) is not copied (counted; >5% is a machinery failure)',
                 '(a) ranges: start only (iterator(start)); a data_txn is expected in the copy only where the transaction it names is in the range',
                 '(c) files are one fill byte (0x00 / 0xff) plus dots; scaled-down CHUNK configurations hand scan() a file object whose '
                 'read returns at most CHUNK bytes; hang = a third read at an unchanged position, more reads than bytes, or 10 s'])


def replay(ctx, data):
    """./check C17 --replay replays/C17-<hash>.json: a scan pattern is run again directly on the real scan(); any other
    divergence is reproduced by running the check with the recorded seed and tier (the histories are regenerated by
    TLC from that seed) and looking for the recorded signature."""
    rp = data.get('replay') or {}
    if rp.get('part') == 'scan':
        p = rp['pattern']
        got = rv.real_scan(rv.pattern_bytes(p['n'], p['fill'], p['dots']), p['start'], rp.get('chunk') or p.get('chunk') or 8096)
        print('scan on %d bytes (fill %s, dots %s) from %d -> %s' % (p['n'], p['fill'], p['dots'], p['start'], got))
        if got == 'hang' or ('spec' in p and got != p['spec']):
            import json          # (no evidence is written for a single replayed pattern)
            print('VIOLATION property=%s replay=%s' % (ctx.pid, ctx.replay))
            print('  signature: %s' % json.dumps(data['signature'], sort_keys=True))
            print('  reproduced: %s' % data['description'])
            return 1
        return 0
    ctx.seed = data.get('seed', ctx.seed)
    ctx.tier = data.get('tier', ctx.tier)
    ctx.quick = ctx.tier == 'quick'
    return run(ctx)
