"""Shared body of the checks decided on ZStorage (C03, C04, C05, C06, C10, C20):
TLC checks the specification exhaustively on small constants, TLC generates behaviours of a
larger configuration, every behaviour is replayed call by call on the real storages."""
import glob
import hashlib
import os
import random

from .. import par, tlc
from ..drivers import storage as sd


def mc_cfg(ctx, name, c, invariants, properties, next_='Next'):
    path = os.path.join(ctx.scratch, name + '.cfg')
    tlc.write_cfg(path, constants=sd.tla_consts(c), next_=next_, invariants=invariants, properties=properties,
                  view='View')
    return path


def model_check(ctx, name, c, invariants=None, properties=None, expect=None, timeout=300, next_='Next'):
    inv = sd.FILE_INVARIANTS if invariants is None else invariants
    props = sd.PROPERTIES + ['OidFresh'] if properties is None else properties
    cfg = mc_cfg(ctx, name, c, inv, props, next_=next_)
    return ctx.model_check('MCZStorage', cfg, name=name, expect_violation=expect, timeout=timeout)


def simulate(ctx, name, c, num, depth, seed, next_='Next', properties=()):
    """-> list of behaviour file paths (parsing is left to the replay workers)"""
    wd = os.path.join(ctx.scratch, 'sim-' + name)
    os.makedirs(wd, exist_ok=True)
    cfg = os.path.join(wd, name + '.cfg')
    tlc.write_cfg(cfg, constants=sd.tla_consts(c), next_=next_, properties=properties)
    outdir = os.path.join(wd, 'out')
    os.makedirs(outdir, exist_ok=True)
    r = tlc.run('MCZStorage', cfg, workdir=wd, simulate='file=%s/tr,num=%d' % (outdir, num), depth=depth,
                seed=seed, workers=1, timeout=900)
    if not r.ok:
        raise tlc.TLCError('simulation %s: %s\n%s' % (name, r.violation, r.output[-2000:]))
    ctx.model['runs'].append(dict(r.summary(), name='simulate-' + name))
    return sorted(glob.glob(os.path.join(outdir, 'tr_*')))


def replay_all(ctx, files, kind, c, opts=None, tag=''):
    jobs = []
    for i, f in enumerate(files):
        o = dict(opts or {})
        # concretisation parameter outside the model: payload padding, so that records spread over more
        # than one read buffer (8 KiB) in two thirds of the replays
        o.setdefault('pad', (0, 3000, 9000)[(i + ctx.seed) % 3])
        # a quarter of the replays observe sparsely: one pooled read per step and the full table only after
        # a commit (newly written objects first) - reads then meet "cold" read buffers at varying moments
        o.setdefault('sparse', (i + ctx.seed) % 4 == 1)
        o['rng_seed'] = ctx.seed * 100003 + i
        jobs.append((f, kind, c, os.path.join(ctx.scratch, 'rp-%s-%s-%d' % (kind, tag, i)), o))
    return par.pmap(sd.replay_behaviour, jobs, chunksize=4)


def judge(ctx, results, kind, focus=None):
    """Turn replay results into violations; returns counters for the evidence."""
    n = len(results)
    distinct = set()
    nontrivial = set()
    steps = 0
    acts = {}
    for r in results:
        steps += r['steps']
        h = hashlib.sha1('|'.join(r['sig']).encode()).hexdigest()
        distinct.add(h)
        for a, k in r['actions'].items():
            acts[a] = acts.get(a, 0) + k
        if focus is None or focus(r):
            nontrivial.add(h)
        mm = r['mismatch']
        if mm:
            sig = {'storage': kind, 'action': mm['action'], 'what': mm['what'],
                   'where': _where(mm['detail'][0])}
            if r.get('mode'):
                sig['mode'] = r['mode']
            ctx.violation(sig, '%s storage diverges from ZStorage at step %d %s%s: %s' % (
                kind, mm['step'], mm['action'], mm['args'], '; '.join(mm['detail'])),
                replay={'kind': kind, 'prefix': mm['prefix']})
        if r.get('tid_reused'):
            x = r['tid_reused']
            ctx.violation({'storage': kind, 'kind': 'tid-reused'},
                          '%s storage: the transaction id %r was given to a second transaction (specification = code; the first one had been '
                          'removed by a pack): %s' % (kind, x['tid'], ' '.join(x['prefix'][-30:])), replay={'kind': kind, 'prefix': x['prefix']})
        for m in r['monitor']:
            ctx.violation({'storage': kind, 'monitor': 'new_oid', 'what': m.split(' which ')[-1].split(' twice')[0][:40]},
                          '%s: %s (behaviour %s)' % (kind, m, ' '.join(r['sig'][:30])), replay={'kind': kind, 'prefix': r['sig']})
    return {'behaviours': n, 'distinct': len(distinct), 'nontrivial': len(nontrivial), 'steps': steps, 'actions': acts}


def _where(detail):
    import re
    d = detail.split(':')[0]
    return re.sub(r'\[[^\]]*\]', '[]', d)[:80]
