"""C16 - a demo storage never modifies its base and reads as changes-over-base.

1. TLC checks spec/ZDemo.tla exhaustively on small constants, for every base x changes kind:
   - the *repaired design* (deviation constants FALSE): DemoObs (every answer of the transcribed operators equals
     ObsTable(base \\o changes) with the intervals joined at the seam), TidsIncreaseAcrossLayers, BaseUnchanged,
     ConflictAcrossLayers, UndoInChangesOnly, OidFreshBothLayers, IssuedOrStored, PushPop, AbortRestores;
   - the *code as it is* (constants TRUE): the same, with DemoObs replaced by Explained (every difference from the
     meaning is one of the named deviations); and TLC exhibits one counterexample per deviation.
2. Conformance (spec -> code): TLC-evaluated directed scenarios (module ZDemoScript: seams, conflicts across the
   layers, undo, id allocation with adversarial _next_oid, push/pop, clock stalls, pack, refused calls), the
   counterexamples of 1. and seeded TLC -simulate behaviours are replayed call by call on real DemoStorage stacks
   (base in {MappingStorage, FileStorage, FileStorage with blobs} x changes in {MappingStorage, FileStorage, FileStorage
   with blobs, the demo storage's own}); after every call the outcome, the full query table and the storages below the
   top (byte- / record-identical to the snapshot taken when they were wrapped, blob files included) are compared.  Where
   both layers keep blobs, oid 0 is a blob: written with storeBlob, read back with loadBlob / openCommittedBlobFile.
3. Where TLC's `dev` / `collides` says that the transcription differs from the meaning and the real storage answers
   as the transcription does, the code has the deviation: reported with the cause as structural signature."""
import concurrent.futures
import glob
import hashlib
import os
import random

from .. import clock, par, tlaparse, tlc
from ..drivers import demo as dd
from ..drivers import demo_scripts as ds

ASSUME = ['TLC results are exhaustive only within the stated constants (2 oids, 2 values, <= 2 base and <= 3 demo '
          'transactions, <= 3 layers); larger configurations are sampled by seeded TLC simulation and by enumerated scenarios',
          'the base is not packed and not written by anyone else while it is wrapped ("the base storage must not change")',
          'after a failed storage call the caller aborts (protocol assumption of IStorage clients)',
          'blob records: where both layers keep blobs (FileStorage with a blob directory below; one, or the demo storage\'s own '
          'changes, on top) oid 0 is a blob written with storeBlob and read with loadBlob / openCommittedBlobFile; what '
          'FileStorage / BlobStorage do with blob files at undo and pack is C13 (no pack on own changes that hold blobs)',
          'a pack that fails means "nothing changed" in the specification; FileStorage / MappingStorage packing itself is C07',
          'transaction, persistent, zodbpickle, BTrees trusted as installed']

# The tree under test: the deviations of the code from the property that the specification carries behind
# constants (TRUE = as the code is).  When one is repaired in /repo the matching constant is set to False here.
TREE = dict(dd.AS_CODE,
            TidFromChangesOnly=False,      # repaired in /repo by b44a8d5 (tpc_begin passes a tid above both layers)
            BlobStoreSkipsBaseCheck=False)   # repaired in /repo by 9bb86b1 (storeBlob makes store()'s merged-serial check)
# still as the code is (known findings): UndoUncreates, OidProbeByLoad, PackAsCode, PackRevealsBase
if os.environ.get('ZV_C16_TREE'):        # self-test against a scratch tree with proposed repairs, e.g. "UndoUncreates=0,PackAsCode=0"
    for kv in os.environ['ZV_C16_TREE'].split(','):
        k, v = kv.split('=')
        if k not in TREE:
            raise RuntimeError('ZV_C16_TREE: unknown constant %s' % k)
        TREE[k] = v.strip() not in ('0', 'false', 'FALSE', '')

# concrete base x changes kinds; kinds with the same model share the TLC-generated behaviours
# ('fileblob' below AND 'fileblob' / 'temp' on top: blob records through storeBlob / loadBlob, see model_key)
COMBOS = [('mapping', 'file'), ('file', 'mapping'), ('mapping', 'mapping'), ('file', 'file'), ('mapping', 'temp'),
          ('fileblob', 'fileblob'), ('fileblob', 'temp'), ('file', 'fileblob'), ('file', 'temp'), ('mapping', 'fileblob')]
# quick: MappingStorage over MappingStorage is left to thorough (both kinds are covered in the other roles)
QUICK_COMBOS = [('mapping', 'file'), ('file', 'mapping'), ('file', 'file'), ('mapping', 'temp'),
                ('fileblob', 'fileblob'), ('fileblob', 'temp')]
DEVIATIONS = {
    'tid-order-across-layers':
        'transaction ids come from the changes storage alone (F10): a commit through the demo storage got a tid that is '
        'not later than the last tid of the layer below (clock stalled or stepped back), so revision intervals do not join '
        'and objects of the lower layer are unreadable in the snapshot of the new transaction',
    'undo-uncreates-lower-object':
        'undoing the first change made through the demo storage to an object of a lower layer writes "object does not '
        'exist" into the changes: the object then reads with the serial of the lower layer although later revisions '
        'exist, loadBefore below the change raises POSKeyError, and every later store of it fails with ConflictError',
    'pack-gc-ignores-base':
        'a demo storage that created its own changes packs them with garbage collection over the changes alone: as soon '
        'as a reference leads into the base (or the root lives there) the pack raises KeyError, and the objects it '
        'visited before - at least the root - have lost their revisions in the changes (committed data reads as the base again)',
    dd.STALE_CAUSE:
        'after a pack of the changes removed the first change(s) made to an object of a lower layer, loadBefore below the '
        'first revision left finds "in the changes, but nothing earlier" and serves the revision of the lower layer, which '
        'the packed-away revisions had replaced: a snapshot from before the pack reads an older state than before the pack '
        '(a packed Mapping/FileStorage answers None there: ReadConflictError)',
    dd.BLOB_CAUSE:
        'storeBlob hands the record straight to the changes storage, which checks the serial against its own revisions '
        'only: for an object that so far lives in the layers below, a stale serial (an older revision, or none at all) '
        'is accepted where store() raises ConflictError - a lost update across the layers',
    'new_oid-reissues-uncreated-oid':
        'new_oid decides presence by loading the current revision: an id whose object was un-created (undo of its '
        'creation) has records in a layer, does not load, and is handed out again',
}


def model_key(b, c):
    """(model kind of the base, of the changes, own changes?[, 'blob']): flavours with the same key share the behaviours"""
    k = (dd.KINDS[b], dd.KINDS[c], c == 'temp')
    return k + ('blob',) if dd.blob_capable(b, c) else k


def model_name(k):
    return '%s-%s%s' % (k[0], 'temp' if k[2] else k[1], '-blob' if len(k) > 3 else '')


def mconsts(k, **kw):
    if len(k) > 3:
        kw.setdefault('BlobOids', (0,))
    return dd.consts(k[0], 'temp' if k[2] else k[1], **kw)


def _cfg(scratch, name, c, invariants=(), properties=(), next_='NextMC', view='View'):
    path = os.path.join(scratch, name + '.cfg')
    tlc.write_cfg(path, constants=dd.tla_consts(c), next_=next_, invariants=invariants, properties=properties, view=view)
    return path


# ---- TLC jobs (run side by side; each returns (name, kind, payload, TLCResult)) ----------------------------------
def _job_check(a):
    scratch, name, c, inv, props, workers, timeout = a
    r = tlc.run('MCZDemo', _cfg(scratch, name, c, inv, props), workers=workers, timeout=timeout)
    return name, 'check', None, r


def _job_cex(a):
    scratch, name, c, inv, props, workers, timeout = a
    r = tlc.run('MCZDemo', _cfg(scratch, name, c, inv, props), workers=workers, timeout=timeout)
    return name, 'cex', (inv + props)[0], r


def _job_scripts(a):
    scratch, name, c, scripts, workers, timeout = a
    behs, r = ds.evaluate(scratch, name, scripts, c, timeout=timeout, workers=workers)
    return name, 'scripts', behs, r


def _job_sim(a):
    scratch, name, c, num, depth, seed, timeout = a
    wd = os.path.join(scratch, 'sim-' + name)
    os.makedirs(os.path.join(wd, 'out'), exist_ok=True)
    cfg = _cfg(wd, name, c, next_='NextSim', view=None)
    r = tlc.run('MCZDemo', cfg, workdir=wd, simulate='file=%s/out/tr,num=%d' % (wd, num), depth=depth, seed=seed,
                workers=1, timeout=timeout)
    if not r.ok:
        raise tlc.TLCError('simulation %s: %s\n%s' % (name, r.violation, r.output[-2000:]))
    return name, 'sim', sorted(glob.glob(os.path.join(wd, 'out', 'tr_*'))), r


def _run_jobs(jobs, width):
    out = []
    with concurrent.futures.ThreadPoolExecutor(max_workers=width) as ex:
        futs = [ex.submit(fn, a) for fn, a in jobs]
        for f in futs:
            out.append(f.result())
    return out


# ---- behaviours <-> replayable call lists -----------------------------------------------------------------------
def entry_of(action, args):
    """one step of a behaviour as a script entry of ZDemoScript (concrete serials / tids)"""
    a = dd.ALIASES.get(action, action)
    x = [dd.norm(v) for v in args]
    if a == 'Begin':
        return {'a': 'begin', 'm': x[1], 'clk': x[2]}
    if a == 'Store':
        return {'a': 'store', 'o': x[1], 's': x[2], 'd': {'v': x[3]['v'][0], 'refs': tuple(sorted(x[3]['refs']))}}
    if a == 'CheckCurrent':
        return {'a': 'check', 'o': x[1], 's': x[2]}
    if a == 'Undo':
        return {'a': 'undo', 'k': x[1]}
    if a in ('Vote', 'Finish', 'Abort'):
        return {'a': a.lower()}
    if a == 'Wrong':
        return {'a': 'wrong', 'call': x[0]}
    if a == 'NewOid':
        return {'a': 'newoid', 'n': x[0]}
    if a == 'Pack':
        return {'a': 'pack', 'sec': x[0], 'g': x[1]}
    if a in ('Push', 'Pop'):
        return {'a': a.lower()}
    return None                      # Init, Skip


def calls_of(beh, upto=None):
    out = []
    for st in beh[:None if upto is None else upto + 1]:
        e = entry_of(st['action'], st['args'])
        if e is not None:
            out.append(e)
    return out


# ---- verdicts ---------------------------------------------------------------------------------------------------
def _where(what, detail):
    """structural place of a divergence: for a table, the field and the leaf that differ (indices dropped);
    for a call, the outcomes / the result key"""
    import re
    if what == 'obs':
        names = re.findall(r"\['([A-Za-z_]+)'\]", detail.split(': ')[0])
        if not names:
            return detail.split(':')[0][:40]
        return names[0] if len(names) == 1 or names[0].startswith('iter') else '%s/%s' % (names[0], names[-1])
    if what == 'base':
        m = re.search(r'\[([a-z_,]+)\]', detail)
        return m.group(1) if m else 'changed'
    m = re.search(r'spec outcome (\S+), implementation (\w+)', detail)
    if m:
        return '%s->%s' % (m.group(1), m.group(2))
    m = re.search(r'spec (\w+)=', detail)
    if m:
        return 'result:' + m.group(1)
    return re.sub(r'[0-9]+', 'N', detail.split(':')[0])[:60]


def verdicts(items, stats):
    """items: [(source, family, behaviour, concrete combo, consts, result)] -> {signature key: entry}; one entry
    per structural signature (the first occurrence carries the description and the replay), occurrences counted."""
    import json
    found = {}

    def add(sig, desc, rep, beh, step):
        key = json.dumps(sig, sort_keys=True)
        if key not in found:          # the first occurrence carries the replayable call list
            if isinstance(beh, str):
                beh = tlaparse.parse_simulate_file(beh)
            found[key] = {'sig': sig, 'desc': desc, 'replay': dict(rep, calls=calls_of(beh, step)), 'n': 0, 'combos': set()}
        e = found[key]
        e['n'] += 1
        e['combos'].add('%s/%s' % tuple(rep['combo']))
    for source, fam, beh, combo, c, r in items:
        s = stats.setdefault('%s/%s' % combo, {'behaviours': 0, 'steps': 0, 'lower_checks': 0, 'actions': {}, 'tags': {},
                                               'deviations': {}, 'demo_txns': 0})
        s['behaviours'] += 1
        s['steps'] += r['steps']
        s['lower_checks'] += r.get('lower_checks', 0)
        s['demo_txns'] += r['demo_txns']
        for a, k in r['actions'].items():
            s['actions'][a] = s['actions'].get(a, 0) + k
        for t in r['tags']:
            s['tags'][t] = s['tags'].get(t, 0) + 1
        rep = {'combo': list(combo), 'consts': {k: v for k, v in c.items() if k != 'PrintObs'}, 'source': source, 'family': fam}
        mm = r['mismatch']
        if mm:
            sig = {'kind': 'conformance', 'action': mm['action'], 'what': mm['what'], 'out': mm['model_out']}
            if not (mm['action'] == 'Pack' and mm['what'] == 'obs'):
                sig['where'] = _where(mm['what'], mm['detail'][0])
            add(sig, 'DemoStorage(base=%s, changes=%s) diverges from ZDemo at step %d %s%s [%s]: %s; calls: %s' % (
                combo[0], combo[1], mm['step'], mm['action'], mm['args'], mm['what'], '; '.join(mm['detail']),
                ' '.join(mm['prefix'][-14:])), rep, beh, mm['step'])
        for g in r['genuine']:
            s['deviations'][g['cause']] = s['deviations'].get(g['cause'], 0) + 1
            add({'kind': 'deviation', 'cause': g['cause']},
                'DemoStorage(base=%s, changes=%s): %s.  Established on the real storage after %s: %s' % (
                    combo[0], combo[1], DEVIATIONS.get(g['cause'], g['cause']), ' '.join(g['prefix'][-12:]),
                    '; '.join(g['detail'][:4])), rep, beh, g['step'])
    return found


def judge(ctx, items, stats):
    found = verdicts(items, stats)
    for key in sorted(found):
        e = found[key]
        ctx.violation(e['sig'], '%s  [%d occurrence(s) in this run, on %s]' % (e['desc'], e['n'], ', '.join(sorted(e['combos']))),
                      replay=e['replay'])
    return found


def run(ctx):
    clock.install()
    q = ctx.quick
    seed = ctx.seed
    ncpu = os.cpu_count() or 4
    combos = QUICK_COMBOS if q else COMBOS
    keys = []
    for b, c in combos:
        if model_key(b, c) not in keys:
            keys.append(model_key(b, c))
    as_tree = TREE
    deviating = any(as_tree.values())

    # ---------------------------------------------------------------- 1. TLC: design and code, exhaustive
    small = dict(MaxBase=1, MaxTxn=2, MaxRecs=1, MaxClock=2, MaxUndo=1, MaxLayers=2, MaxNewOid=1, MaxPack=0)
    stacked = dict(MaxBase=1, MaxTxn=2, MaxRecs=1, MaxClock=1, MaxUndo=1, MaxLayers=3, MaxNewOid=0, MaxPack=0)
    # quick: the design with one value and a moving clock, the code with two values and a stalling clock
    # (a stall suffices for F10); thorough: both with two values, a moving clock, two records per transaction
    design_kw = dict(small, AtomVals=('v1',))
    code_kw = dict(small, MaxClock=1)
    if not q:
        design_kw = code_kw = dict(MaxBase=2, MaxTxn=2, MaxRecs=1, MaxClock=2, MaxUndo=1, MaxLayers=2, MaxNewOid=1, MaxPack=0)
        stacked = dict(MaxBase=1, MaxTxn=2, MaxRecs=1, MaxClock=2, MaxUndo=1, MaxLayers=3, MaxNewOid=1, MaxPack=0)

    def sized(kw, k):
        # the demo storage's own changes: pack is usable (quick: instead of new_oid; thorough: one base transaction)
        if k[2]:
            return dict(kw, MaxPack=1, MaxNewOid=0 if q else 1, MaxBase=1)
        if not q and k not in big_keys:
            return dict(kw, MaxBase=1)          # (a FileStorage base with undo records triples the state space)
        return kw
    w = 2 if q else 4
    to = 280 if q else 3000
    jobs = []
    cex_key = ('mapping', 'file', False)
    inv_design = dd.INVARIANTS + dd.REPAIRED_INVARIANTS
    prop_design = dd.PROPERTIES + dd.REPAIRED_PROPERTIES
    # quick: the specification-internal runs (design / transcription against the meaning) on two flavours each,
    # thorough: on every flavour; the conformance part below always covers every flavour
    big_keys = [('mapping', 'file', False)]       # thorough: two base transactions
    plain = [k for k in keys if len(k) == 3]       # (the keys with a blob oid have their own runs: cex-storeBlob, design-file-file-blob)
    design_keys = [k for k in plain if not q or k in (('mapping', 'file', False), ('mapping', 'mapping', True))]
    code_keys = [k for k in plain if (not q and (k[2] or k in (cex_key, ('file', 'file', False))))
                 or k in (('file', 'file', False), ('mapping', 'mapping', True))]
    for k in keys:
        n = model_name(k)
        if k in design_keys:
            jobs.append((_job_check, (ctx.scratch, 'design-' + n, mconsts(k, mode=dd.REPAIRED, **sized(design_kw, k)),
                                      inv_design, prop_design, w, to)))
        if deviating and k in code_keys:
            jobs.append((_job_check, (ctx.scratch, 'code-' + n, mconsts(k, mode=as_tree, **sized(code_kw, k)),
                                      dd.INVARIANTS + ['Explained'], dd.PROPERTIES, w, to)))
    if not q:
        # FileStorage's packer through the repaired demo storage (the code as it is never gets there)
        jobs.append((_job_check, (ctx.scratch, 'design-pack-mapping-file',
                                  mconsts(cex_key, mode=dd.REPAIRED, **dict(small, MaxPack=1, MaxNewOid=0)), inv_design, prop_design, w, to)))
        # one transaction more through the demo storage
        jobs.append((_job_check, (ctx.scratch, 'design-deep-mapping-file',
                                  mconsts(cex_key, mode=dd.REPAIRED, **dict(design_kw, MaxBase=1, MaxTxn=3)), inv_design, prop_design, 6, to)))
    # push / pop (three layers) on one file and one temporary flavour
    for k in [x for x in keys if x in (('mapping', 'file', False), ('mapping', 'mapping', True))][:1 if q else 2]:
        jobs.append((_job_check, (ctx.scratch, 'design-stacked-' + model_name(k), mconsts(k, mode=dd.REPAIRED, **stacked),
                                  inv_design, prop_design, w, to)))
        if deviating and not q:
            jobs.append((_job_check, (ctx.scratch, 'code-stacked-' + model_name(k), mconsts(k, mode=as_tree, **stacked),
                                      dd.INVARIANTS + ['Explained'], dd.PROPERTIES, w, to)))
    # the counterexamples TLC exhibits for the code as it is (replayed below)
    cex_c = mconsts(cex_key, mode=as_tree, PrintObs=True, **code_kw)
    expected_cex = []
    if as_tree['TidFromChangesOnly']:
        expected_cex.append(('TidsIncreaseAcrossLayers', 'tid-order-across-layers'))
        jobs.append((_job_cex, (ctx.scratch, 'cex-tid-order', cex_c, ['TidsIncreaseAcrossLayers'], [], 2, to)))
    if as_tree['UndoUncreates']:
        expected_cex.append(('NoUndoDeviation', 'undo-uncreates-lower-object'))
        # (needs a clock that moves: with a stalled clock every state over a non-empty base is a tid-order state)
        jobs.append((_job_cex, (ctx.scratch, 'cex-undo', dict(cex_c, MaxClock=2, MaxNewOid=0, AtomVals=('v1',) if q else cex_c['AtomVals']),
                                ['NoUndoDeviation'], [], 2, to)))
    if as_tree['OidProbeByLoad']:
        expected_cex.append(('OidFreshBothLayers', 'new_oid-reissues-uncreated-oid'))
        jobs.append((_job_cex, (ctx.scratch, 'cex-new_oid', cex_c, [], ['OidFreshBothLayers'], 2, to)))

    temp_key = ('mapping', 'mapping', True)
    temp_cex_c = mconsts(temp_key, mode=as_tree, PrintObs=True, **sized(code_kw, temp_key))
    if as_tree['PackRevealsBase'] and temp_key in keys:
        expected_cex.append(('PackServesNoStaleRevision', dd.STALE_CAUSE))
        jobs.append((_job_cex, (ctx.scratch, 'cex-pack-stale', temp_cex_c, [], ['PackServesNoStaleRevision'], 2, to)))
    blob_key = ('file', 'file', False, 'blob')
    blob_cex_c = mconsts(blob_key, mode=as_tree, PrintObs=True, **code_kw)
    if as_tree['BlobStoreSkipsBaseCheck'] and blob_key in keys:
        expected_cex.append(('ConflictAcrossLayers', dd.BLOB_CAUSE))
        jobs.append((_job_cex, (ctx.scratch, 'cex-storeBlob', blob_cex_c, ['ConflictAcrossLayers'], [], 2, to)))
    if not q and blob_key in keys:
        # the repaired design with a blob oid (storeBlob checks as store does; undo compares the pickles of blobs)
        jobs.append((_job_check, (ctx.scratch, 'design-file-file-blob', mconsts(blob_key, mode=dd.REPAIRED, **small),
                                  inv_design, prop_design + ['BlobStoreChecked'], w, to)))

    # ---------------------------------------------------------------- 2. TLC: scenarios and simulation for replay
    big = dict(MaxBase=4, MaxTxn=12, MaxClock=7, K=64, MaxLayers=3, MaxNewOid=8, MaxPack=2, MaxUndo=2, PrintObs=True)
    simc = dict(MaxBase=2, MaxTxn=6, MaxClock=3, K=64, MaxLayers=3, MaxNewOid=2, MaxPack=1, MaxUndo=2, PrintObs=True,
                Metas=('m0', 'm1'))
    num = 20 if q else 400
    fams = {}

    def scripts_kw(k):
        # references (for the garbage collection of own changes) only where no oid is a blob
        return dict(big, RefSets='FewRefs' if k[2] and len(k) == 3 else 'NoRefs')

    def sim_kw(k):
        # no pack on own changes that hold blobs (they are wrapped in a BlobStorage: F15 / C13)
        return dict(simc, MaxPack=0) if k[2] and len(k) > 3 else simc
    for k in keys:
        n = model_name(k)
        b, c = k[0], 'temp' if k[2] else k[1]
        fam = ds.families(b, c, random.Random(seed * 7919 + 11), extra=4 if q else 120, blob=len(k) > 3)
        fams[k] = fam
        jobs.append((_job_scripts, (ctx.scratch, 'scripts-' + n, mconsts(k, mode=as_tree, **scripts_kw(k)),
                                    [s for _, s in fam], 2, to)))
        if q and k[2] and len(k) > 3:
            continue                 # quick: own changes with blobs replay the scenarios only
        jobs.append((_job_sim, (ctx.scratch, 'sim-' + n, mconsts(k, mode=as_tree, **sim_kw(k)), num, 70, seed + 1 + len(n), to)))
    import time
    t0 = time.time()
    order = {_job_scripts: 0, _job_check: 1, _job_cex: 2, _job_sim: 3}          # the long ones first
    jobs.sort(key=lambda j: order[j[0]])
    results = _run_jobs(jobs, width=max(2, ncpu // 2 if q else ncpu // 3))
    if os.environ.get('ZV_DEBUG'):
        print('TLC jobs: %.1fs wall' % (time.time() - t0))
        for name, kind, payload, r in results:
            print('  %-28s %6.1fs %8d states' % (name, r.wall_s, r.distinct or r.states_generated))

    behaviours = {}        # model key -> [(source, family, steps, consts)]
    cex_traces = []
    byname = {model_name(k): k for k in keys}
    for name, kind, payload, r in results:
        ctx.add_tlc(name, r)
        if kind == 'check':
            if not r.ok:
                raise tlc.TLCError('ZDemo/%s: unexpected violation of %s\n%s' % (name, r.violation, r.output[-3000:]))
        elif kind == 'cex':
            if r.violation != payload:
                raise tlc.TLCError('ZDemo/%s with the code as it is: expected a counterexample to %s, got %s\n%s' % (
                    name, payload, r.violation, r.output[-2000:]))
            cex_traces.append((name, r.trace) + ((blob_key, blob_cex_c) if name == 'cex-storeBlob' else
                                                 (temp_key, temp_cex_c) if name == 'cex-pack-stale' else (cex_key, cex_c)))
        elif kind == 'scripts':
            k = byname[name[len('scripts-'):]]
            c = mconsts(k, mode=as_tree, **scripts_kw(k))
            for (fname, _), b in zip(fams[k], payload):
                behaviours.setdefault(k, []).append(('scenario', fname, b, c))
        elif kind == 'sim':
            k = byname[name[len('sim-'):]]
            c = mconsts(k, mode=as_tree, **sim_kw(k))
            for f in payload:
                behaviours.setdefault(k, []).append(('simulation', 'sim', f, c))

    # ---------------------------------------------------------------- 3. replay on the real storages
    jobs, index = [], []
    for combo in combos:
        k = model_key(*combo)
        for i, (source, fam, b, c) in enumerate(behaviours[k]):
            o = {'pad': (0, 3000, 9000)[(i + seed) % 3]}
            jobs.append((b, combo[0], combo[1], c, os.path.join(ctx.scratch, 'rp-%s-%s-%d' % (combo[0], combo[1], i)), o))
            index.append((source, fam, combo, c))
    for name, trace, ck, cc in cex_traces:
        for combo in [cb for cb in combos if model_key(*cb) == ck]:
            jobs.append((trace, combo[0], combo[1], cc, os.path.join(ctx.scratch, 'rp-%s-%s-%s' % (name, combo[0], combo[1])), {}))
            index.append(('counterexample', name, combo, cc))
    t0 = time.time()
    res = par.pmap(dd.replay_behaviour, jobs, chunksize=2)
    if os.environ.get('ZV_DEBUG'):
        print('replay of %d behaviours: %.1fs wall' % (len(jobs), time.time() - t0))
    stats = {}
    items = []
    for (source, fam, combo, c), job, r in zip(index, jobs, res):
        items.append((source, fam, job[0], combo, c, r))          # job[0]: parsed steps, or the path of a simulate file
    judge(ctx, items, stats)
    if os.environ.get('ZV_DEBUG'):
        print('judged: %.1fs since start' % (time.time() - ctx.t0))

    # ---------------------------------------------------------------- vacuity
    acts, tags, distinct, nontrivial, established = {}, {}, set(), set(), {}
    for (source, fam, beh, combo, c, r) in items:
        for a, n in r['actions'].items():
            acts[a] = acts.get(a, 0) + n
        for t in r['tags']:
            tags[t] = tags.get(t, 0) + 1
        h = hashlib.sha1(('%s/%s|' % combo + '|'.join(r['sig'])).encode()).hexdigest()
        distinct.add(h)
        if r['demo_txns'] >= 2 and 'seam' in r['tags']:
            nontrivial.add(h)
        for g in r['genuine']:
            established.setdefault(g['cause'], set()).add(source)
    need_actions = ['Begin', 'Store', 'CheckCurrent', 'Vote', 'Finish', 'Abort', 'Wrong', 'NewOid', 'Pack', 'Push', 'Pop', 'Undo',
                    'Begin@base', 'Store@base', 'Finish@base']
    missing = [a for a in need_actions if not acts.get(a)]
    need_tags = ['pack', 'seam', 'seam-walk-2', 'resolved-across-layers', 'conflict', 'undo-ok', 'undo-UndoError', 'new_oid-taken',
                 'new_oid-free', 'push-stacked', 'pop-stacked', 'checkCurrent-ReadConflictError', 'abort',
                 'storeBlob-ok', 'storeBlob-conflict(base serial)', 'storeBlob-conflict(changes serial)', 'loadBlob-from-base',
                 'loadBlob-from-changes', 'blobify']
    missing += [t for t in need_tags if not tags.get(t)]
    if missing and not ctx.violations:
        raise RuntimeError('vacuous run: never exercised %s' % ', '.join(missing))
    for inv, cause in expected_cex:
        if not ctx.violations and 'counterexample' not in established.get(cause, ()):
            # TLC exhibits it for the transcription and the real storage conformed: it must have been established
            raise RuntimeError('the counterexample to %s was replayed but %s was not established' % (inv, cause))

    # ---------------------------------------------------------------- committer threads on a DemoStorage
    # (tpc_begin / tpc_finish of two or three threads interleaved by the cooperative scheduler; serial equivalent
    #  = the commits in the order they returned, evaluated by TLC over ZStorage: the layers read as ONE database)
    from ..drivers import commitconc
    sched_cov = commitconc.explore(ctx, ('demo', 'demo-base', 'demo-file'), 60 if q else 2400, 'ccd')

    ev = len(items)
    sample = next((r for (s, f, b, cb, c, r) in items if f == 'seam' and r['demo_txns'] >= 3), items[0][5])
    sample2 = next((r for (s, f, b, cb, c, r) in items if s == 'simulation' and r['demo_txns'] >= 2), items[-1][5])
    return ctx.finish({
        'evaluations': ev,
        'distinct_nontrivial': len(nontrivial),
        'distinct': len(distinct),
        'rule': 'behaviours of ZDemo = TLC-evaluated directed scenarios (module ZDemoScript; families seam / conflict / check / '
                'undo / new_oid / push / clock / pack / pack-seam / pack-gc / blob / abort / mix), TLC counterexamples for the code as it is, and seeded TLC '
                '-simulate behaviours (2 oids, <= 2 base + 6 demo transactions, <= 3 layers), each replayed on every base x '
                'changes combination; distinct = distinct (combination, call sequence); non-trivial = at least 2 transactions '
                'committed through a demo storage and an object with revisions on both sides of a seam; after EVERY call the '
                'outcome, the full query table (loadBefore at every tid boundary, load, loadSerial, getTid, history at every '
                'size, iterator whole and from every start, undoLog, lastTransaction, len) and every storage below the top are compared; '
                'where both layers keep blobs oid 0 is a blob: storeBlob with a temporary file, every revision read back through loadBlob '
                'and openCommittedBlobFile, the blob directories of the lower layers part of their snapshots; '
                'in addition 2-3 committer threads run on a DemoStorage (plain, over a base with history, with FileStorage changes) under '
                'the cooperative scheduler and the result must equal the TLC-evaluated serial execution in the order the commits returned',
        'traces_validated_against_impl': ev,
        'steps_replayed': sum(r['steps'] for (_, _, _, _, _, r) in items),
        'lower_layer_comparisons': sum(r.get('lower_checks', 0) for (_, _, _, _, _, r) in items),
        'actions': acts,
        'exercised': tags,
        'per_combination': stats,
        'committer_schedules': sched_cov,
        'deviations_established': {k: sorted(v) for k, v in established.items()},
        'tree_constants': as_tree,
        'samples': [sample['sig'][:40], sample2['sig'][:40]],
        'exhaustive': False,
    }, ASSUME)


def replay(ctx, data):
    """./check C16 --replay replays/C16-xxxx.json: TLC evaluates the recorded calls again (ZDemoScript), the result is
    replayed on the real storages."""
    clock.install()
    rep = data['replay']
    combo = tuple(rep['combo'])
    c = dict(rep['consts'], PrintObs=True)
    c['AtomVals'], c['Metas'], c['Client'] = tuple(c['AtomVals']), tuple(c['Metas']), tuple(c['Client'])
    # the bounds of the scenario configuration: the recorded calls are followed, nothing is enumerated
    c.update(MaxBase=50, MaxTxn=50, MaxNewOid=50, MaxPack=50, MaxUndo=9, MaxRecs=max(c['MaxRecs'], 4))
    calls = [dict(e, d={'v': e['d']['v'], 'refs': tuple(e['d']['refs'])}) if 'd' in e else e for e in rep['calls']]
    behs, r = ds.evaluate(ctx.scratch, 'replay', [calls], c)
    ctx.add_tlc('replay', r)
    out = dd.replay_behaviour((behs[0], combo[0], combo[1], c, os.path.join(ctx.scratch, 'rp'), {}))
    import json
    found = verdicts([('replay', rep.get('family'), behs[0], combo, c, out)], {})
    print('replayed %d calls on DemoStorage(base=%s, changes=%s): %s' % (
        out['steps'], combo[0], combo[1], 'every outcome, query and lower layer agrees with ZDemo, no deviation'
        if not found else ''))
    for key in sorted(found):
        print('replayed: signature %s\n  %s' % (json.dumps(found[key]['sig'], sort_keys=True), found[key]['desc']))
    return 1 if found else 0            # (the evidence file of the last full run is left alone)
