"""C03 - no lost updates."""
from .. import clock
from ..drivers import storage as sd
from . import _storage as S
from .c04 import ASSUME


def conflicts(r):
    return r['actions'].get('AbortFailed', 0) >= 1 and r['txns'] >= 2


def run(ctx):
    clock.install()
    q = ctx.quick
    S.model_check(ctx, 'file-3x1', sd.consts('file', MaxTxn=3, MaxRecs=1), invariants=['NoLostUpdate', 'StoredIsMerge'],
                  properties=['AbortRestores', 'OnlyFinishChangesHistory'])
    S.model_check(ctx, 'file-2x2', sd.consts('file', MaxTxn=2, MaxRecs=2), invariants=['NoLostUpdate', 'StoredIsMerge'],
                  properties=['AbortRestores', 'OnlyFinishChangesHistory'])
    if not q:
        S.model_check(ctx, 'file-4x1', sd.consts('file', MaxTxn=4, MaxRecs=1, AtomVals=('v1',)),
                      invariants=['NoLostUpdate', 'StoredIsMerge'], properties=['AbortRestores'], timeout=1800)
    S.model_check(ctx, 'mapping-3x2', sd.consts('mapping', MaxTxn=3, MaxRecs=2, Cls='MCClsPlain'),
                  invariants=['NoLostUpdate'], properties=['AbortRestores', 'OnlyFinishChangesHistory'])
    big = dict(NOid=3, Metas=('m0',), MaxTxn=8, MaxRecs=3, MaxClock=2)
    num = 350 if q else 5000
    cov = {}
    for kind, cls in (('file', 'MCCls'), ('mapping', 'MCClsPlain')):
        c = sd.consts(kind, Cls=cls, **big)
        files = S.simulate(ctx, kind, c, num=num, depth=70, seed=ctx.seed + 3, next_='NextCommit')
        res = S.replay_all(ctx, files, kind, c)
        cov[kind] = S.judge(ctx, res, kind, focus=conflicts)
        cov[kind]['sample'] = res[0]['sig'][:25]
    # thread schedules of two or more committers on every bundled storage (file, mapping, demo)
    from ..drivers import commitconc
    cov['committer_schedules'] = commitconc.explore(ctx, ('file', 'mapping', 'demo'), 90 if q else 3000, 'cc')
    ev = sum(v['behaviours'] for v in cov.values() if 'behaviours' in v) + cov['committer_schedules']['run']
    return ctx.finish({
        'evaluations': ev,
        'distinct_nontrivial': sum(v.get('nontrivial', 0) for v in cov.values()) + cov['committer_schedules']['with_3_switches'],
        'rule': 'TLC -simulate behaviours of ZStorage under NextCommit (stores with every serial a client can hold: 0 or '
                'any committed revision of the oid; checkCurrentSerialInTransaction; deleteObject; undo); the real call '
                'must raise ConflictError / ReadConflictError exactly when the specification does, stage nothing when it '
                'raises, and the committed history (iterator + all queries) must equal the specification history, whose '
                'invariant NoLostUpdate TLC checks; 2-3 committer threads on FileStorage, MappingStorage and DemoStorage run under '
                'the cooperative scheduler and the final storage must equal the TLC-evaluated serial execution in the order in '
                'which the commits returned (tids increasing in that order); non-trivial = at least one refused call and two commits',
        'traces_validated_against_impl': ev,
        'per_storage': cov,
        'samples': [cov[k]['sample'] for k in cov if 'sample' in cov[k]],
        'exhaustive': False,
    }, ASSUME + ['DemoStorage conflict detection across layers is decided by C16; connection-level readCurrent by C02'])
