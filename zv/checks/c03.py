"""C03 - no lost updates."""
from .. import clock
from ..drivers import storage as sd
from . import _storage as S
from .c04 import ASSUME


def conflicts(r):
    return r['actions'].get('AbortFailed', 0) >= 1 and r['txns'] >= 2


def run(ctx):
    clock.install()
    q = ctx.quick
    S.model_check(ctx, 'file-3x1', sd.consts('file', MaxTxn=3, MaxRecs=1), invariants=['NoLostUpdate', 'StoredIsMerge'],
                  properties=['AbortRestores', 'OnlyFinishChangesHistory'])
    S.model_check(ctx, 'file-2x2', sd.consts('file', MaxTxn=2, MaxRecs=2), invariants=['NoLostUpdate', 'StoredIsMerge'],
                  properties=['AbortRestores', 'OnlyFinishChangesHistory'])
    if not q:
        S.model_check(ctx, 'file-4x1', sd.consts('file', MaxTxn=4, MaxRecs=1, AtomVals=('v1',)),
                      invariants=['NoLostUpdate', 'StoredIsMerge'], properties=['AbortRestores'], timeout=1800)
    S.model_check(ctx, 'mapping-3x2', sd.consts('mapping', MaxTxn=3, MaxRecs=2, Cls='MCClsPlain'),
                  invariants=['NoLostUpdate'], properties=['AbortRestores', 'OnlyFinishChangesHistory'])
    big = dict(NOid=3, Metas=('m0',), MaxTxn=8, MaxRecs=3, MaxClock=2)
    num = 350 if q else 5000
    cov = {}
    for kind, cls in (('file', 'MCCls'), ('mapping', 'MCClsPlain')):
        c = sd.consts(kind, Cls=cls, **big)
        files = S.simulate(ctx, kind, c, num=num, depth=70, seed=ctx.seed + 3, next_='NextCommit')
        res = S.replay_all(ctx, files, kind, c)
        cov[kind] = S.judge(ctx, res, kind, focus=conflicts)
        cov[kind]['sample'] = res[0]['sig'][:25]
    ev = sum(v['behaviours'] for v in cov.values())
    return ctx.finish({
        'evaluations': ev,
        'distinct_nontrivial': sum(v['nontrivial'] for v in cov.values()),
        'rule': 'TLC -simulate behaviours of ZStorage under NextCommit (stores with every serial a client can hold: 0 or '
                'any committed revision of the oid; checkCurrentSerialInTransaction; deleteObject; undo); the real call '
                'must raise ConflictError / ReadConflictError exactly when the specification does, stage nothing when it '
                'raises, and the committed history (iterator + all queries) must equal the specification history, whose '
                'invariant NoLostUpdate TLC checks; non-trivial = at least one refused call and two commits',
        'traces_validated_against_impl': ev,
        'per_storage': cov,
        'samples': [cov[k]['sample'] for k in cov],
        'exhaustive': False,
    }, ASSUME + ['DemoStorage and thread schedules of two committers are covered by C16 / C02 machinery'])
