"""C01 - committed transactions survive a crash at any point; unfinished ones vanish."""
import os

from .. import clock, faultfs, par, tlc
from ..drivers import crash, storage as sd
from . import _storage as S

ASSUME = ['crash model: any prefix of the raw operations issued to the data file, the last write torn at any byte '
          '(reordering of un-fsynced writes by the OS/disk is outside property and model)',
          'raw operations are those Python buffered I/O issues, recorded by a harness-side layer substituted for '
          'open/os/fsync in the FileStorage modules',
          'TLC results are exhaustive only within the stated constants; behaviours are sampled by seeded simulation']


def _mc(ctx):
    cfg = os.path.join(ctx.scratch, 'zfile.cfg')
    tlc.write_cfg(cfg, constants={'MaxTxn': 3, 'MaxChunk': 40}, init='FInit',
                  invariants=['TypeOK', 'CrashConsistent', 'OnlyFlippedSurvives', 'IdleMeansClean'],
                  properties=['FsyncBeforeAck'], constraint='Bound')
    return ctx.model_check('ZFile', cfg, name='ZFile-protocol')


def run(ctx, pid='C01'):
    clock.install()
    faultfs.install()
    q = ctx.quick
    _mc(ctx)
    big = dict(NOid=3, Metas=('m0', 'm1'), MaxTxn=8, MaxRecs=3, MaxClock=2)
    c = sd.consts('file', Cls='MCCls', **big)
    num = 60 if q else 1500
    files = S.simulate(ctx, 'commit', c, num=num, depth=60, seed=ctx.seed + 21, next_='NextCommit')
    files += S.simulate(ctx, 'abort', sd.consts('file', Cls='MCCls', **dict(big, MaxTxn=12)), num=num, depth=70,
                        seed=ctx.seed + 22, next_='NextAbort')
    jobs = [(f, c, os.path.join(ctx.scratch, 'crash-%d' % i), {'torn': 'sample' if (q or i % 5) else 'all',
                                                                 'pad': (0, 700)[i % 2]}) for i, f in enumerate(files)]
    res = par.pmap(crash.run_behaviour, jobs, chunksize=2)
    traces = [r['events'] for r in res]
    accepted, rejected, tr = tlc.validate_traces('ZFileTrace', traces, os.path.join(ctx.scratch, 'tv'),
                                                 constants={'MaxTxn': 0, 'MaxChunk': 0})
    ctx.add_tlc('ZFileTrace-validation', tr)
    images = sum(r['images'] for r in res)
    nontrivial = 0
    for i, r in enumerate(res):
        if r['acks'] >= 2:
            nontrivial += 1
        for p in r['problems']:
            ctx.violation({'kind': 'replay', 'action': p['action']},
                          'replay under the file layer diverged from ZStorage: %s' % (p['detail'],), replay={'sig': r['sig']})
        if i in rejected:
            k = rejected[i]
            ev = traces[i][k] if k is not None and k < len(traces[i]) else {'ev': '?'}
            prev = traces[i][max(0, (k or 0) - 3):(k or 0)]
            det = [d for d in r['probe_details'] if d['at'] == ev.get('at')][:1]
            sig = {'kind': 'trace', 'event': ev.get('ev'), 'after': prev[-1]['ev'] if prev else 'start'}
            if ev.get('ev', '').startswith('Probe'):
                sig['recovered'] = 'not-a-committed-prefix' if not ev.get('n') else 'wrong-prefix'
            ctx.violation(sig, 'trace %d rejected by ZFileTrace at event %s %r (after %r)%s' % (
                i, k, ev, [e['ev'] for e in prev], ('; ' + det[0]['detail']) if det else ''),
                replay={'sig': r['sig'], 'event': ev, 'index': k})
    return ctx.finish({
        'evaluations': images,
        'distinct_nontrivial': nontrivial,
        'traces_validated_against_impl': len(traces),
        'trace_events': sum(len(t) for t in traces),
        'crash_images_reopened': images,
        'behaviours': len(res),
        'rule': 'TLC -simulate behaviours of ZStorage (commits, aborts after vote, undo, conflicts, reopen) are executed on a '
                'real FileStorage over the recording file layer; the raw operation log becomes a ZFile trace; every '
                'operation boundary and sampled (1 in 5 behaviours in thorough: every) byte-prefixes of every data-file '
                'write are materialised as crash images and reopened with the real FileStorage; each probe records the k for '
                'which the recovered storage answers EVERY query like the model history after k commits; TLC validates each '
                'trace against ZFileTrace (sequential vote writes flagged c, complete tail at vote return, flip at pos+16, '
                'fsync between flip and acknowledgement, truncate back to the committed end on abort, every probe = the '
                'number of flipped transactions); non-trivial = behaviour with >= 2 acknowledged commits',
        'samples': [traces[0][:25]] if traces else [],
        'exhaustive': False,
    }, ASSUME)
