"""C20 - object ids are never issued twice or for an object that already exists."""
from .. import clock
from ..drivers import storage as sd
from . import _storage as S
from .c04 import ASSUME


def run(ctx):
    clock.install()
    q = ctx.quick
    for kind, cls in (('file', 'MCCls'), ('mapping', 'MCClsPlain')):
        S.model_check(ctx, kind + '-oid', sd.consts(kind, NOid=4, MaxTxn=2, MaxRecs=2, AtomVals=('v1',), MaxClock=1, Cls=cls),
                      invariants=['TypeOK'], properties=['OidFresh'])
    big = dict(NOid=8, Metas=('m0',), MaxTxn=6, MaxRecs=3, MaxClock=1, AtomVals=('v1',))
    num = 300 if q else 5000
    cov = {}
    for kind, cls in (('file', 'MCCls'), ('mapping', 'MCClsPlain')):
        c = sd.consts(kind, Cls=cls, **big)
        files = S.simulate(ctx, kind, c, num=num, depth=60, seed=ctx.seed + 13, next_='NextOid')
        res = S.replay_all(ctx, files, kind, c)
        cov[kind] = S.judge(ctx, res, kind, focus=lambda r: r['actions'].get('NewOid', 0) >= 2)
        cov[kind]['sample'] = res[0]['sig'][:25]
    ev = sum(v['behaviours'] for v in cov.values())
    return ctx.finish({
        'evaluations': ev,
        'distinct_nontrivial': sum(v['nontrivial'] for v in cov.values()),
        'rule': 'TLC -simulate behaviours of ZStorage under NextOid: new_oid interleaved with stores and restores of '
                'arbitrary (never issued, larger) oids, aborts, commits and close/reopen; the oid returned by the real '
                'new_oid must equal the specification (whose action property OidFresh TLC checks) and an independent '
                'monitor requires it to be new for the session and absent from the storage; non-trivial = >= 2 new_oid calls',
        'traces_validated_against_impl': ev,
        'per_storage': cov,
        'samples': [cov[k]['sample'] for k in cov],
        'exhaustive': False,
    }, ASSUME + ['DemoStorage allocation is decided by C16; concurrent allocators by the scheduler part (to be added)'])
