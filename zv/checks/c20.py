"""C20 - object ids are never issued twice or for an object that already exists."""
import os
from .. import clock
from ..drivers import storage as sd
from . import _storage as S
from .c04 import ASSUME


def _alloc_threads(job):
    kind, seed, stick, workdir = job[:4]
    lines = len(job) > 4 and job[4]
    import shutil
    from .. import sched
    from ..concretize import u64
    sched.install()
    sched.S = None
    shutil.rmtree(workdir, ignore_errors=True)
    os.makedirs(workdir)
    if kind == 'file':
        from ZODB.FileStorage import FileStorage
        st = FileStorage(os.path.join(workdir, 'Data.fs'))
    elif kind == 'mapping':
        from ZODB.MappingStorage import MappingStorage
        st = MappingStorage()
    else:
        from ZODB.DemoStorage import DemoStorage
        st = DemoStorage()
    start = u64(st.new_oid())
    Sc = sched.S = sched.Sched(seed, stick=stick)
    if lines:
        # line granularity inside the allocators and the helpers they are wrapped in: a new_oid that is not atomic
        # although it takes (or should take) the storage lock shows as a duplicate / non-linearizable result
        Sc.trace_lines(lambda code: code.co_name in ('new_oid', '__call__', 'set_max_oid') and 'ZODB' in code.co_filename)
    trace = [{'ev': 'Start', 'start': start}]

    def body():
        for _ in range(3):
            oid = st.new_oid()
            trace.append({'ev': 'NewOid', 'oid': u64(oid) % (2 ** 31 - 1) if kind == 'demo' else u64(oid)})
    for i in range(3):
        Sc.spawn('a%d' % i, body)
    outcome = Sc.go(timeout=30)
    sched.S = None
    errors = {k: repr(v)[:100] for k, v in Sc.errors.items()}
    try:
        st.close()
    except Exception:
        pass
    shutil.rmtree(workdir, ignore_errors=True)
    return {'kind': kind, 'seed': seed, 'trace': trace, 'outcome': outcome, 'errors': errors}


def _demo_layers(ctx):
    """objects in either layer of a demo storage: allocation scenarios of ZDemo (module ZDemoScript evaluated by TLC:
    _next_oid left on an id of the base, of the changes, an issued one, one issued to an aborted / failed transaction,
    across push and pop) replayed on real DemoStorage stacks; only what new_oid returns is judged here (C16 judges
    the rest), by the specification and by an independent monitor over what the real layers hold"""
    import random
    from . import c16
    from ..drivers import demo as dd, demo_scripts as ds
    from .. import par
    rng = random.Random(ctx.seed * 31 + 7)
    combos = [('mapping', 'file'), ('file', 'mapping'), ('mapping', 'mapping')]
    big = dict(MaxBase=4, MaxTxn=12, MaxClock=7, K=64, MaxLayers=3, MaxNewOid=12, MaxPack=2, MaxUndo=2, PrintObs=True)
    jobs, index = [], []
    for b, ck in combos:
        k = c16.model_key(b, ck)
        c = c16.mconsts(k, mode=c16.TREE, RefSets='NoRefs', **big)
        fam = [(f, s2) for f, s2 in ds.families(b, ck, rng) if f in ('new_oid', 'undo-create', 'push')]
        # allocation around transactions that do not commit: issued ids must stay issued
        for o in (0, 1):
            fam.append(('abort', ds.PUSH + ds.newoid(o) + ds.begin(1) + ds.store(o, 'v1', 0) + [{'a': 'abort'}] + ds.newoid(o)
                        + ds.newoid(1 - o) + ds.commit([(o, 'v1', 0)], 2) + ds.newoid(o) + ds.newoid(1 - o)))
            fam.append(('abort', ds.commit([(1 - o, 'v1')], 1) + ds.PUSH + ds.newoid(o) + ds.begin(2) + ds.store(o, 'v1', 0)
                        + [{'a': 'vote'}, {'a': 'abort'}] + ds.newoid(o) + ds.newoid(o) + ds.newoid(1 - o)))
            fam.append(('abort', ds.PUSH + ds.newoid(o) + ds.newoid(1 - o) + ds.begin(1) + ds.store(o, 'v1', 0)
                        + [{'a': 'vote'}, {'a': 'finish'}] + ds.begin(2) + ds.store(1 - o, 'v1', 0) + [{'a': 'abort'}]
                        + ds.newoid(1 - o) + ds.newoid(o)))
        behs, r = ds.evaluate(ctx.scratch, 'oid-%s-%s' % (b, ck), [s2 for _, s2 in fam], c, workers=4)
        ctx.add_tlc('ZDemoScript-oid-%s-%s' % (b, ck), r)
        for (f, _), beh in zip(fam, behs):
            jobs.append((beh, b, ck, c, os.path.join(ctx.scratch, 'oid-rp-%d' % len(jobs)), {}))
            index.append(('scenario', f, (b, ck), c))
    res = par.pmap(dd.replay_behaviour, jobs, chunksize=2)
    items = [(src, f, job[0], combo, c, r) for (src, f, combo, c), job, r in zip(index, jobs, res)]
    found = c16.verdicts(items, {})
    for key in sorted(found):
        e = found[key]
        sig = e['sig']
        if sig.get('action') == 'NewOid' or sig.get('cause', '').startswith('new_oid'):
            ctx.violation(dict(sig, monitor='demo-layers'), '%s  [%d occurrence(s), on %s]' % (e['desc'], e['n'], ', '.join(sorted(e['combos']))),
                          replay=e['replay'])
    n_new = sum(r['actions'].get('NewOid', 0) for r in res)
    taken = sum(1 for r in res if 'new_oid-taken' in r['tags'])
    if not ctx.violations and (not n_new or not taken):
        raise RuntimeError('vacuous run: DemoStorage allocation scenarios never skipped a taken id')
    return {'behaviours': len(res), 'nontrivial': taken, 'new_oid_calls': n_new, 'skipped_a_taken_id': taken,
            'sample': res[0]['sig'][:25]}


def run(ctx):
    clock.install()
    q = ctx.quick
    for kind, cls in (('file', 'MCCls'), ('mapping', 'MCClsPlain')):
        S.model_check(ctx, kind + '-oid', sd.consts(kind, NOid=4, MaxTxn=2, MaxRecs=2, AtomVals=('v1',), MaxClock=1, Cls=cls),
                      invariants=['TypeOK'], properties=['OidFresh'])
    big = dict(NOid=8, Metas=('m0',), MaxTxn=6, MaxRecs=3, MaxClock=2, AtomVals=('v1',))
    num = 300 if q else 5000
    cov = {}
    for kind, cls in (('file', 'MCCls'), ('mapping', 'MCClsPlain')):
        c = sd.consts(kind, Cls=cls, **big)
        files = S.simulate(ctx, kind, c, num=num, depth=60, seed=ctx.seed + 13, next_='NextOid')
        res = S.replay_all(ctx, files, kind, c)
        if kind == 'file':
            # the same behaviours with the oids spread over several buckets of the two-level oid index (stride 65537):
            # "records copied in with arbitrary ids ... after a close and reopen, everything stored before"
            res += S.replay_all(ctx, files[::2], kind, c, opts={'oid_stride': 65537, 'stride_new_oid': True}, tag='stride')
        cov[kind] = S.judge(ctx, res, kind, focus=lambda r: r['actions'].get('NewOid', 0) >= 2)
        cov[kind]['sample'] = res[0]['sig'][:25]
    # concurrent allocators: real threads under the scheduler (switching where a lock is acquired); the calls in
    # completion order are validated by TLC against the atomic NewOid (ZOidTrace)
    import os
    from .. import par, tlc
    jobs = [(kind, ctx.seed * 100 + i, (0.2, 0.5, 0.8)[i % 3]) for i in range(120 if q else 3000) for kind in ('file', 'mapping', 'demo')]
    sres = par.pmap(_alloc_threads, [j + (os.path.join(ctx.scratch, 'al-%d' % n), n % 2 == 1) for n, j in enumerate(jobs)], chunksize=8)
    traces = [r['trace'] for r in sres]
    accepted, rejected, tr = tlc.validate_traces('ZOidTrace', traces, os.path.join(ctx.scratch, 'tv'))
    ctx.add_tlc('ZOidTrace-validation', tr)
    for i, r in enumerate(sres):
        if r['outcome'] != 'ok' or r['errors']:
            ctx.violation({'storage': r['kind'], 'monitor': 'alloc-threads', 'what': r['outcome'] if r['outcome'] != 'ok' else 'thread-error'},
                          '%s: allocator threads: %s %r (seed %d)' % (r['kind'], r['outcome'], r['errors'], r['seed']), replay=r)
        if i in rejected and r['kind'] != 'demo':
            ctx.violation({'storage': r['kind'], 'monitor': 'alloc-threads', 'what': 'not-linearizable'},
                          '%s: concurrent new_oid calls returned %r: no order of atomic NewOid steps explains it (seed %d)' % (
                              r['kind'], [e.get('oid') for e in r['trace'][1:]], r['seed']), replay=r)
        oids = [e['oid'] for e in r['trace'][1:]]
        if len(set(oids)) != len(oids):
            ctx.violation({'storage': r['kind'], 'monitor': 'alloc-threads', 'what': 'duplicate'},
                          '%s: concurrent new_oid calls returned a duplicate: %r (seed %d)' % (r['kind'], oids, r['seed']), replay=r)
    cov['threads'] = {'schedules': len(sres), 'validated': len(accepted)}
    cov['demo'] = _demo_layers(ctx)
    ev = sum(v['behaviours'] for v in cov.values() if 'behaviours' in v) + len(sres)
    return ctx.finish({
        'evaluations': ev,
        'distinct_nontrivial': sum(v.get('nontrivial', 0) for v in cov.values()) + len({repr(r['trace']) for r in sres}),
        'rule': 'TLC -simulate behaviours of ZStorage under NextOid: new_oid interleaved with stores and restores of '
                'arbitrary (never issued, larger) oids, aborts, commits and close/reopen; the oid returned by the real '
                'new_oid must equal the specification (whose action property OidFresh TLC checks) and an independent '
                'monitor requires it to be new for the session and absent from the storage (also with the oids spread over several '
                'buckets of the oid index, stride 65537); 3 allocator threads x 3 calls on '
                'FileStorage, MappingStorage and DemoStorage run under the cooperative scheduler (seeded schedules; every second run '
                'also switches at every source line inside new_oid and the lock decorator), the calls '
                'in completion order are validated by TLC against the atomic NewOid (ZOidTrace; demo: distinctness only, its '
                'ids are random); allocation scenarios of ZDemo (ids of the base, of the changes, issued ones, ids issued to aborted '
                'transactions, across push/pop) are evaluated by TLC and replayed on DemoStorage stacks, new_oid judged by the '
                'specification and by a monitor over the real layers; non-trivial = >= 2 new_oid calls / distinct thread traces',
        'traces_validated_against_impl': ev,
        'per_storage': cov,
        'samples': [cov[k]['sample'] for k in cov if 'sample' in cov[k]] + [sres[0]['trace']],
        'exhaustive': False,
    }, ASSUME + ['ids issued during an import or a savepoint are covered through Connection.new_oid -> storage.new_oid (C14 / C12 machinery)'])
