"""C20 - object ids are never issued twice or for an object that already exists."""
import os
from .. import clock
from ..drivers import storage as sd
from . import _storage as S
from .c04 import ASSUME


def _alloc_threads(job):
    kind, seed, stick, workdir = job
    import shutil
    from .. import sched
    from ..concretize import u64
    sched.install()
    sched.S = None
    shutil.rmtree(workdir, ignore_errors=True)
    os.makedirs(workdir)
    if kind == 'file':
        from ZODB.FileStorage import FileStorage
        st = FileStorage(os.path.join(workdir, 'Data.fs'))
    elif kind == 'mapping':
        from ZODB.MappingStorage import MappingStorage
        st = MappingStorage()
    else:
        from ZODB.DemoStorage import DemoStorage
        st = DemoStorage()
    start = u64(st.new_oid())
    Sc = sched.S = sched.Sched(seed, stick=stick)
    trace = [{'ev': 'Start', 'start': start}]

    def body():
        for _ in range(3):
            oid = st.new_oid()
            trace.append({'ev': 'NewOid', 'oid': u64(oid) % (2 ** 31 - 1) if kind == 'demo' else u64(oid)})
    for i in range(3):
        Sc.spawn('a%d' % i, body)
    outcome = Sc.go(timeout=30)
    sched.S = None
    errors = {k: repr(v)[:100] for k, v in Sc.errors.items()}
    try:
        st.close()
    except Exception:
        pass
    shutil.rmtree(workdir, ignore_errors=True)
    return {'kind': kind, 'seed': seed, 'trace': trace, 'outcome': outcome, 'errors': errors}


def run(ctx):
    clock.install()
    q = ctx.quick
    for kind, cls in (('file', 'MCCls'), ('mapping', 'MCClsPlain')):
        S.model_check(ctx, kind + '-oid', sd.consts(kind, NOid=4, MaxTxn=2, MaxRecs=2, AtomVals=('v1',), MaxClock=1, Cls=cls),
                      invariants=['TypeOK'], properties=['OidFresh'])
    big = dict(NOid=8, Metas=('m0',), MaxTxn=6, MaxRecs=3, MaxClock=1, AtomVals=('v1',))
    num = 300 if q else 5000
    cov = {}
    for kind, cls in (('file', 'MCCls'), ('mapping', 'MCClsPlain')):
        c = sd.consts(kind, Cls=cls, **big)
        files = S.simulate(ctx, kind, c, num=num, depth=60, seed=ctx.seed + 13, next_='NextOid')
        res = S.replay_all(ctx, files, kind, c)
        cov[kind] = S.judge(ctx, res, kind, focus=lambda r: r['actions'].get('NewOid', 0) >= 2)
        cov[kind]['sample'] = res[0]['sig'][:25]
    # concurrent allocators: real threads under the scheduler (switching where a lock is acquired); the calls in
    # completion order are validated by TLC against the atomic NewOid (ZOidTrace)
    import os
    from .. import par, tlc
    jobs = [(kind, ctx.seed * 100 + i, (0.2, 0.5, 0.8)[i % 3]) for i in range(120 if q else 3000) for kind in ('file', 'mapping', 'demo')]
    sres = par.pmap(_alloc_threads, [j + (os.path.join(ctx.scratch, 'al-%d' % n),) for n, j in enumerate(jobs)], chunksize=8)
    traces = [r['trace'] for r in sres]
    accepted, rejected, tr = tlc.validate_traces('ZOidTrace', traces, os.path.join(ctx.scratch, 'tv'))
    ctx.add_tlc('ZOidTrace-validation', tr)
    for i, r in enumerate(sres):
        if r['outcome'] != 'ok' or r['errors']:
            ctx.violation({'storage': r['kind'], 'monitor': 'alloc-threads', 'what': r['outcome'] if r['outcome'] != 'ok' else 'thread-error'},
                          '%s: allocator threads: %s %r (seed %d)' % (r['kind'], r['outcome'], r['errors'], r['seed']), replay=r)
        if i in rejected and r['kind'] != 'demo':
            ctx.violation({'storage': r['kind'], 'monitor': 'alloc-threads', 'what': 'not-linearizable'},
                          '%s: concurrent new_oid calls returned %r: no order of atomic NewOid steps explains it (seed %d)' % (
                              r['kind'], [e.get('oid') for e in r['trace'][1:]], r['seed']), replay=r)
        oids = [e['oid'] for e in r['trace'][1:]]
        if len(set(oids)) != len(oids):
            ctx.violation({'storage': r['kind'], 'monitor': 'alloc-threads', 'what': 'duplicate'},
                          '%s: concurrent new_oid calls returned a duplicate: %r (seed %d)' % (r['kind'], oids, r['seed']), replay=r)
    cov['threads'] = {'schedules': len(sres), 'validated': len(accepted)}
    ev = sum(v['behaviours'] for v in cov.values() if 'behaviours' in v) + len(sres)
    return ctx.finish({
        'evaluations': ev,
        'distinct_nontrivial': sum(v.get('nontrivial', 0) for v in cov.values()) + len({repr(r['trace']) for r in sres}),
        'rule': 'TLC -simulate behaviours of ZStorage under NextOid: new_oid interleaved with stores and restores of '
                'arbitrary (never issued, larger) oids, aborts, commits and close/reopen; the oid returned by the real '
                'new_oid must equal the specification (whose action property OidFresh TLC checks) and an independent '
                'monitor requires it to be new for the session and absent from the storage; 3 allocator threads x 3 calls on '
                'FileStorage, MappingStorage and DemoStorage run under the cooperative scheduler (seeded schedules), the calls '
                'in completion order are validated by TLC against the atomic NewOid (ZOidTrace; demo: distinctness only, its '
                'ids are random); non-trivial = >= 2 new_oid calls / distinct thread traces',
        'traces_validated_against_impl': ev,
        'per_storage': cov,
        'samples': [cov[k]['sample'] for k in cov if 'sample' in cov[k]] + [sres[0]['trace']],
        'exhaustive': False,
    }, ASSUME + ['DemoStorage allocation is decided by C16; concurrent allocators by the scheduler part (to be added)'])
