"""C02 - every transaction reads from one consistent snapshot."""
import os
import random

from .. import par, tlc
from ..drivers import mvcc

ASSUME = ['schedules are explored at lock-operation granularity (a thread switch can happen only where a lock is acquired '
          'or a condition waited on); races inside C extensions or between bytecodes holding no lock are not scheduled',
          'events are emitted by harness-side wrappers at method exit; between the state change and the wrapper no lock is '
          'acquired, so the event is atomic with the change under this scheduler',
          'TLC results are exhaustive only within the stated constants; schedules are seeded random walks']
CONSTS = {'WithRC': 'TRUE', 'UndoAgents': '{"u"}', 'Conn': '{"c1", "c2", "c3", "u"}', 'Oid': '{"x", "y"}', 'MaxCommits': 999, 'MaxCloses': 999, 'MutIgnoreILtid': 'FALSE'}


def _mc(ctx, quick):
    cfg = os.path.join(ctx.scratch, 'zmvcc.cfg')
    tlc.write_cfg(cfg, constants={'Conn': '{"c1", "c2"}', 'Oid': '{"x", "y"}', 'MaxCommits': 3 if quick else 4,
                                  'MaxCloses': 2, 'MutIgnoreILtid': 'FALSE', 'UndoAgents': '{}', 'WithRC': 'FALSE'},
                  invariants=['CacheCoherent', 'Fresh', 'NotFromTheFuture', 'VotedOnCurrent', 'LockDiscipline'], next_='NextVA')
    ctx.model_check('ZMvcc', cfg, name='ZMvcc-2conn', timeout=1800)
    cfgu = os.path.join(ctx.scratch, 'zmvcc-undo.cfg')
    tlc.write_cfg(cfgu, constants={'Conn': '{"c1", "c2", "u"}', 'Oid': '{"x", "y"}', 'MaxCommits': 2 if quick else 3,
                                   'MaxCloses': 0 if quick else 1, 'MutIgnoreILtid': 'FALSE', 'UndoAgents': '{"u"}', 'WithRC': 'FALSE'},
                  invariants=['CacheCoherent', 'Fresh', 'NotFromTheFuture', 'VotedOnCurrent', 'LockDiscipline'])
    ctx.model_check('ZMvcc', cfgu, name='ZMvcc-with-undo', timeout=1800)
    cfgr = os.path.join(ctx.scratch, 'zmvcc-rc.cfg')
    tlc.write_cfg(cfgr, constants={'Conn': '{"c1", "c2"}', 'Oid': '{"x", "y"}', 'MaxCommits': 2 if quick else 3,
                                   'MaxCloses': 0, 'MutIgnoreILtid': 'FALSE', 'UndoAgents': '{}', 'WithRC': 'TRUE'},
                  invariants=['CacheCoherent', 'VotedOnCurrent', 'LockDiscipline'])
    ctx.model_check('ZMvcc', cfgr, name='ZMvcc-readCurrent', timeout=1800)
    # vacuity / sensitivity: the specification rejects the known-bad design (snapshot := polled tid only)
    cfg2 = os.path.join(ctx.scratch, 'zmvcc-mut.cfg')
    tlc.write_cfg(cfg2, constants={'Conn': '{"c1", "c2"}', 'Oid': '{"x", "y"}', 'MaxCommits': 3, 'MaxCloses': 1,
                                   'MutIgnoreILtid': 'TRUE', 'UndoAgents': '{}', 'WithRC': 'FALSE'}, invariants=['CacheCoherent'])
    ctx.model_check('ZMvcc', cfg2, name='ZMvcc-mutant', expect_violation='CacheCoherent', timeout=600)


def run(ctx):
    q = ctx.quick
    _mc(ctx, q)
    rng = random.Random(ctx.seed * 31 + 5)
    n = 600 if q else 20000
    jobs = []
    for i in range(n):
        kind = ('file', 'mapping')[i % 2]
        nth = 2 if i % 5 else 3
        progs = mvcc.gen_programs(rng, nthreads=nth, length=4)
        jobs.append((kind, progs, ctx.seed * 1000003 + i, os.path.join(ctx.scratch, 'mv-%d' % i),
                     {'stick': (0.3, 0.6, 0.85)[i % 3], 'yield_io': i % 4 == 0, 'pad': (0, 6000)[(i // 4) % 2]}))
    # systematic preemption sweeps (sched.Plan) over directed programs: one thread is stopped after its k-th yield
    # point (two-level: t1 after k1, then t2 after k2) while the rest runs to completion - a reader inside a load
    # across a vote / abort / finish of the other connection, a boundary inside every window of a finish or an undo
    DIRECTED = [
        [['va', 'wx'], ['rx', 'rx', 'r']],          # voted-then-aborted commit, then a commit at the same place; reader
        [['wx', 'wy'], ['r', 'r']],                 # boundaries of the reader inside the other's finish
        [['u1'], ['rx', 'r']],                      # (after an initial commit by the same thread) undo vs cached reader
        [['rw', 'u1'], ['r', 'mr']],
        [['wx', 'wy', 'u2'], ['r', 'r']],           # one undo transaction undoing two transactions of different objects
        [['wx', 'u1', 'u1'], ['r', 'r', 'r']],      # undo of an undo
        [['wx', 'ul', 'wy'], ['r', 'wx']],          # an undo transaction refused at tpc_begin (over-long description)
        [['cx'], ['wx', 'r']],                      # readCurrent dependency vs a commit
        [['crb'], ['wx', 'r']],                     # ... declared before a savepoint that is rolled back to
        [['wa', 'wx'], ['r', 'co', 'r']],           # pooled connection reused across the other's commit
    ]
    pjobs = []
    for pi, progs in enumerate(DIRECTED):
        for kind in ('file', 'mapping'):
            if kind == 'mapping' and any(op in ('u1', 'u2', 'ul') for p in progs for op in p):
                continue
            yio = kind == 'file' and progs[0][0] in ('va', 'wa')
            names = ['t%d' % (i + 1) for i in range(len(progs))]
            # (how many yield points a thread passes depends on what it finds cached: calibrate in both orders)
            y = {}
            for order in (names, names[::-1]):
                cal = mvcc.scenario((kind, progs, 0, os.path.join(ctx.scratch, 'mvcal'), {'plan': [], 'order': order, 'yield_io': yio, 'pad': 6000 if yio else 0}))
                for n_, v in cal['yields'].items():
                    y[n_] = max(y.get(n_, 0), v + 8)
            cap1, cap2 = ((64, 28) if pi == 0 else (24, 8)) if q else (200, 60)

            def pick(n, cap):
                ks = list(range(1, n + 2))
                return ks if len(ks) <= cap else sorted({1 + (i * n) // (cap - 1) for i in range(cap)})
            for victim in names:
                other = [n_ for n_ in names if n_ != victim][0]
                for k in pick(y.get(victim, 0), cap1):
                    pjobs.append((kind, progs, 0, os.path.join(ctx.scratch, 'mvp-%d' % len(pjobs)),
                                  {'plan': [(victim, k)], 'order': [other, victim], 'yield_io': yio, 'pad': 6000 if yio else 0}))
            # two-level: t1 stopped after k1 yields, t2 after k2, then t1 to its end, then t2
            for k1 in pick(y.get('t1', 0), cap1):
                for k2 in pick(y.get('t2', 0), cap2):
                    pjobs.append((kind, progs, 0, os.path.join(ctx.scratch, 'mvp-%d' % len(pjobs)),
                                  {'plan': [('t1', k1), ('t2', k2)], 'order': ['t1', 't2'], 'yield_io': yio, 'pad': 6000 if yio else 0}))
    # window sweep at source-line granularity inside the read-file pool: the committer is stopped everywhere between
    # its vote and its abort, the reader at EVERY yield point (lines of FilePool.get / flush included)
    wprogs = DIRECTED[0]
    wkw = {'yield_io': True, 'pad': 6000, 'lines': True}
    cal = mvcc.scenario(('file', wprogs, 0, os.path.join(ctx.scratch, 'mvcalw'), dict(wkw, plan=[], order=['t2', 't1'])))
    y1 = cal['yields'].get('t1', 0) + 8
    y2 = cal['yields'].get('t2', 0) + 12
    pre = par.pmap(mvcc.scenario, [('file', wprogs, 0, os.path.join(ctx.scratch, 'mvw-%d' % k1),
                                    dict(wkw, plan=[('t1', k1)], order=['t2', 't1'])) for k1 in range(1, y1)], chunksize=4)
    inwin = []
    for k1, r in zip(range(1, y1), pre):
        evs = [e['ev'] for e in r['trace'] if e.get('thread') == 't1']
        cut = next((i for i, e in enumerate(r['trace']) if e.get('thread') == 't2'), len(r['trace']))
        before = [e['ev'] for e in r['trace'][:cut] if e.get('thread') == 't1']
        if 'BeginVote' in before and 'TpcAbort' not in before:
            inwin.append(k1)
    wjobs = [('file', wprogs, 0, os.path.join(ctx.scratch, 'mvw-%d-%d' % (k1, k2)),
              dict(wkw, plan=[('t1', k1), ('t2', k2)], order=['t1', 't2']))
             for k1 in (inwin if not q else inwin[:6]) for k2 in range(1, y2)]
    pjobs += wjobs
    res = par.pmap(mvcc.scenario, jobs + pjobs, chunksize=8)
    # spec -> code: TLC behaviours of ZMvcc as directed schedules
    from ..drivers import mvcc_directed
    from .. import tlaparse
    import glob
    simdir = os.path.join(ctx.scratch, 'mvsim')
    os.makedirs(os.path.join(simdir, 'out'))
    scfg = os.path.join(simdir, 'sim.cfg')
    tlc.write_cfg(scfg, constants={'Conn': '{"c1", "c2"}', 'Oid': '{"x", "y"}', 'MaxCommits': 4, 'MaxCloses': 2,
                                   'MutIgnoreILtid': 'FALSE', 'UndoAgents': '{}', 'WithRC': 'FALSE'})
    nd = 150 if q else 5000
    rs = tlc.run('ZMvcc', scfg, workdir=simdir, simulate='file=%s/out/tr,num=%d' % (simdir, nd), depth=45, seed=ctx.seed + 51,
                 workers=1, timeout=900)
    ctx.model['runs'].append(dict(rs.summary(), name='simulate-ZMvcc'))
    djobs = []
    for i, f in enumerate(sorted(glob.glob(os.path.join(simdir, 'out', 'tr_*')))):
        djobs.append((('file', 'mapping')[i % 2], tlaparse.parse_simulate_file(f), os.path.join(ctx.scratch, 'md-%d' % i)))
    dres = par.pmap(mvcc_directed.scenario, djobs, chunksize=4)
    directed = {'behaviours': len(dres), 'expected_events': sum(r['expected'] for r in dres),
                'matched_events': sum(r['matched'] for r in dres),
                'fully_followed': sum(1 for r in dres if r['matched'] == r['expected'])}
    res += dres
    traces = [r['trace'] for r in res]
    # (many systematic schedules record the same trace: TLC validates each distinct trace once)
    import json
    keyed = [json.dumps(t, sort_keys=True) for t in traces]
    first_of = {}
    for i, k in enumerate(keyed):
        first_of.setdefault(k, i)
    uniq_idx = sorted(first_of.values())
    acc_u, rej_u, tr = tlc.validate_traces('ZMvccTrace', [traces[i] for i in uniq_idx], os.path.join(ctx.scratch, 'tv'), constants=CONSTS,
                                           timeout=1800)
    rej_first = {uniq_idx[j]: k for j, k in rej_u.items()}
    rejected = {i: rej_first[first_of[k]] for i, k in enumerate(keyed) if first_of[k] in rej_first}
    accepted = {i for i in range(len(traces)) if i not in rejected}
    ctx.add_tlc('ZMvccTrace-validation', tr)
    nontrivial = 0
    distinct = set()
    for i, r in enumerate(res):
        distinct.add(repr(r['trace']))
        if r['commits'] >= 1 and r['switches'] >= 3:
            nontrivial += 1
        if r['outcome'] != 'ok':
            ctx.violation({'kind': 'schedule', 'outcome': r['outcome']},
                          '%s: scheduler outcome %s for programs %r seed %d' % (r['kind'], r['outcome'], r['programs'], r['seed']),
                          replay={'kind': r['kind'], 'programs': r['programs'], 'seed': r['seed']})
        for th, err in r['errors'].items():
            ctx.violation({'kind': 'thread-error', 'error': err.split(':')[0]},
                          '%s: thread %s raised %s (programs %r seed %d)' % (r['kind'], th, err, r['programs'], r['seed']),
                          replay={'kind': r['kind'], 'programs': r['programs'], 'seed': r['seed']})
        if i in rejected:
            k = rejected[i]
            ev = traces[i][k] if k is not None and k < len(traces[i]) else {'ev': '?'}
            prev = [e['ev'] for e in traces[i][max(0, (k or 0) - 4):(k or 0)]]
            ctx.violation({'kind': 'trace', 'event': ev.get('ev'), 'storage': r['kind']},
                          '%s: trace rejected by ZMvccTrace at event %s %r after %r (programs %r seed %d)' % (
                              r['kind'], k, ev, prev, r['programs'], r['seed']),
                          replay={'kind': r['kind'], 'programs': r['programs'], 'seed': r['seed'], 'index': k})
    return ctx.finish({
        'evaluations': len(res),
        'systematic_preemption_runs': len(pjobs), 'vote_abort_window_runs_at_line_granularity': len(wjobs), 'distinct_traces_validated': len(uniq_idx),
        'distinct_nontrivial': min(nontrivial, len(distinct)),
        'distinct_traces': len(distinct),
        'directed_schedules': directed,
        'traces_validated_against_impl': len(traces),
        'trace_events': sum(len(t) for t in traces),
        'rule': 'seeded multi-connection programs (2-3 threads; per transaction: read both / read one / write x / write y / '
                'write both then commit or abort; close and reopen through the pool; DB.undoMultiple of the last one or two '
                'transactions as a transaction of its own) run on the real DB, Connection, MVCC '
                'adapter over FileStorage and MappingStorage with one real thread per connection under the cooperative '
                'scheduler (seeded random walk, three stickiness levels; in a quarter of the FileStorage runs every raw read/write of the data file is a yield point as well); one event per ZMvcc action (Open, Close, PollRead, '
                'PollApply with snapshot and cache projection, Read with serial, Write, BeginVote outcome, FinishStart, '
                'Deliver per instance, Publish, AbortTxn) with tids rank-normalised; TLC validates every trace against '
                'ZMvccTrace (every step must be a ZMvcc step with the logged values) and evaluates CacheCoherent, Fresh, '
                'NotFromTheFuture, VotedOnCurrent, LockDiscipline in every state; in addition TLC -simulate behaviours of ZMvcc are '
                'replayed as DIRECTED schedules (one thread per model connection, the director runs the thread that owns the '
                'next expected event) and validated the same way; non-trivial = at least one commit and three '
                'thread switches',
        'samples': [traces[0][:30]] if traces else [],
        'exhaustive': False,
    }, ASSUME)
