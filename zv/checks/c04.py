"""C04 - the storage answers every revision query from the committed history."""
from .. import clock
from ..drivers import storage as sd
from . import _storage as S

ASSUME = ['TLC results are exhaustive only within the stated constants',
          'behaviours for replay are sampled by TLC -simulate from a larger configuration (seeded)',
          'after a failed storage call the caller aborts (protocol assumption of IStorage clients)',
          'transaction, persistent, zodbpickle, BTrees trusted as installed']


def run(ctx):
    clock.install()
    q = ctx.quick
    # 1. the design: exhaustive on small constants (all clock behaviours, every call order)
    S.model_check(ctx, 'file-3x1', sd.consts('file', MaxTxn=3, MaxRecs=1))
    S.model_check(ctx, 'file-2x2', sd.consts('file', MaxTxn=2, MaxRecs=2))
    if not q:
        S.model_check(ctx, 'file-3x2', sd.consts('file', MaxTxn=3, MaxRecs=2), timeout=1800)
    S.model_check(ctx, 'mapping-3x2', sd.consts('mapping', MaxTxn=3, MaxRecs=2, Cls='MCClsPlain'),
                  invariants=['TypeOK', 'NoLostUpdate'], properties=['AbortRestores', 'OnlyFinishChangesHistory',
                                                                     'WrongTxnNoEffect', 'NextCanBegin'])
    # 2. the code: behaviours of a larger configuration replayed call by call, all queries after every call
    big = dict(NOid=3, Metas=('m0', 'm1', 'm2'), MaxTxn=7, MaxRecs=3, MaxClock=3)
    num = 400 if q else 6000
    cov = {}
    for kind, cls in (('file', 'MCCls'), ('mapping', 'MCClsPlain')):
        c = sd.consts(kind, Cls=cls, **big)
        files = S.simulate(ctx, kind, c, num=num, depth=70, seed=ctx.seed + 1, next_='NextCommit')
        res = S.replay_all(ctx, files, kind, c)
        cov[kind] = S.judge(ctx, res, kind, focus=lambda r: r['txns'] >= 2)
        cov[kind]['sample'] = res[0]['sig'][:25]
    # 3. commit order under concurrency: committer threads on each bundled storage (scheduler: seeded random and
    #    systematic single-preemption schedules); tids must increase in the order the commits returned
    from ..drivers import commitconc
    cc = commitconc.explore(ctx, ('file', 'mapping', 'demo-base'), 45 if q else 1500, 'cc4')
    ev = sum(v['behaviours'] for v in cov.values() if 'behaviours' in v) + cc['run']
    cov['committer_schedules'] = cc
    return ctx.finish({
        'evaluations': ev,
        'distinct_nontrivial': sum(v.get('nontrivial', 0) for v in cov.values()),
        'rule': 'TLC -simulate behaviours of ZStorage (3 oids, <=5 transactions, <=3 records each, 3 metadata shapes, '
                'clock advancing/stalling/stepping back, undo, delete, close/reopen); distinct = distinct action '
                'sequence; non-trivial = at least 2 committed transactions; after EVERY call the full query table '
                '(loadBefore at every tid boundary, load, loadSerial, history, iterator, undoLog, lastTransaction, len) '
                'of the real storage is compared with the table TLC printed for that state; 2-3 committer threads per storage kind run under the '
                'cooperative scheduler (seeded random and systematic single-preemption schedules) and the storage must equal the '
                'TLC-evaluated serial execution in the order the commits returned',
        'traces_validated_against_impl': ev,
        'per_storage': cov,
        'samples': [cov[k]['sample'] for k in cov if 'sample' in cov[k]],
        'exhaustive': False,
    }, ASSUME)
