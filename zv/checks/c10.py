"""C10 - conflict resolution stores exactly the class's three-way merge."""
from .. import clock
from ..drivers import storage as sd
from . import _storage as S
from .c04 import ASSUME


def resolved(r):
    return r.get('resolved', 0) >= 1 or any('M' in s for s in r['sig'])


def run(ctx):
    clock.install()
    from .. import concretize
    concretize.FORMATS = True      # references of several formats (strong with class, weak, bare oid) to one target
    q = ctx.quick
    inv = ['StoredIsMerge', 'NoLostUpdate']
    S.model_check(ctx, 'file-3x1-refs', sd.consts('file', MaxTxn=3, MaxRecs=1, RefSets='AllRefs', AtomVals=('v1',), MaxClock=1),
                  invariants=inv, properties=['AbortRestores', 'UndoSemantics'])
    S.model_check(ctx, 'file-3x1-mix', sd.consts('file', NOid=5, MaxTxn=3, MaxRecs=1, AtomVals=('v1',), Cls='MCClsMix', MaxClock=1),
                  invariants=inv, properties=['AbortRestores'], timeout=900)
    big = dict(NOid=6, Metas=('m0',), MaxTxn=8, MaxRecs=2, MaxClock=2, RefSets='FewRefs', Cls='MCClsMix')
    num = 400 if q else 6000
    c = sd.consts('file', **big)
    files = S.simulate(ctx, 'file', c, num=num, depth=70, seed=ctx.seed + 11, next_='NextResolve')
    res = S.replay_all(ctx, files, 'file', c)
    cov = S.judge(ctx, res, 'file', focus=lambda r: r['txns'] >= 3)
    return ctx.finish({
        'evaluations': cov['behaviours'],
        'distinct_nontrivial': cov['nontrivial'],
        'rule': 'TLC -simulate behaviours of ZStorage under NextResolve over 6 oids whose classes are plain / resolver '
                'returning a term that embeds its three arguments / resolver raising / class not importable / resolver '
                'raising ConflictError / resolver of a class with constructor arguments whose state shares an object with the class part of the record; states carry references (none / one / two); stores use stale serials so that '
                'tryToResolveConflict runs (store path) and undo with later changes runs it on the undo path; the stored '
                'record read back must be exactly Merge(state at the supplied serial, committed state, new state) with '
                'the union of references, tpc_vote must return exactly the resolved oids, unresolvable cases must raise '
                'ConflictError/UndoError and stage nothing; non-trivial = at least three commits',
        'traces_validated_against_impl': cov['behaviours'],
        'per_storage': {'file': cov},
        'samples': [res[0]['sig'][:30]],
        'exhaustive': False,
    }, ASSUME + ['the writer connection re-reading the merged state is decided by the C11/C02 connection machinery'])
