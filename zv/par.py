"""Fan work out over worker processes (fork: the parent has already imported ZODB from
the tree under test and installed the harness layers; no threads are alive at fork time)."""
import multiprocessing
import os
import traceback


def _call(a):
    fn, item = a
    try:
        return ('ok', fn(item))
    except BaseException:
        return ('err', traceback.format_exc())


class Hang(RuntimeError):
    """worker processes did not come back: a call into the code under test never returned (and was not under one of
    the per-call watchdogs)"""


def pmap(fn, items, workers=None, chunksize=1, timeout=None):
    """Ordered parallel map.  Exceptions in workers are machinery failures; workers that never return are a Hang,
    which the runner reports as a violation (the unchanged tree returns from every call)."""
    items = list(items)
    workers = min(workers or os.cpu_count() or 4, max(1, len(items)))
    if workers <= 1 or os.environ.get('ZV_SERIAL'):
        res = [_call((fn, it)) for it in items]
    else:
        ctx = multiprocessing.get_context('fork')
        with ctx.Pool(workers) as pool:
            limit = timeout or float(os.environ.get('ZV_PMAP_TIMEOUT', 2700))
            try:
                res = pool.map_async(_call, [(fn, it) for it in items], chunksize).get(limit)
            except multiprocessing.TimeoutError:
                pool.terminate()
                raise Hang('%d work items of %s did not finish within %d s' % (len(items), getattr(fn, '__name__', fn), limit))
    out = []
    for k, v in res:
        if k == 'err':
            raise RuntimeError('worker failed:\n' + v)
        out.append(v)
    return out


def chunks(items, n):
    items = list(items)
    n = max(1, n)
    k = (len(items) + n - 1) // n if items else 1
    return [items[i:i + k] for i in range(0, len(items), k)]
