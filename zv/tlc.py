"""Running TLC (model checking, simulation, trace validation) and reading its results."""
import glob
import os
import re
import shutil
import subprocess
import tempfile
import time

from . import tlaparse

HERE = os.path.dirname(os.path.abspath(__file__))
SPEC_DIR = os.path.join(os.path.dirname(HERE), 'spec')
JAR = '/opt/veriftools/tla/tla2tools.jar'
DEPS = '/opt/veriftools/tla/CommunityModules-deps.jar'


class TLCError(Exception):
    """TLC itself failed (parse error, evaluation error, timeout): machinery failure."""


class TLCResult:
    def __init__(self):
        self.ok = False               # finished without violation
        self.violation = None         # name of violated invariant/property, or 'deadlock'
        self.states_generated = 0
        self.distinct = 0
        self.depth = 0
        self.trace = []               # parsed counterexample
        self.output = ''
        self.wall_s = 0.0
        self.coverage = {}            # action name -> (distinct, total) when -coverage was on
        self.printed = []             # values printed by PrintT

    def summary(self):
        return {'ok': self.ok, 'violation': self.violation, 'states_generated': self.states_generated,
                'distinct': self.distinct, 'depth': self.depth, 'wall_s': round(self.wall_s, 2)}


def scratch(prefix='zv-'):
    base = os.environ.get('ZV_SCRATCH') or tempfile.gettempdir()
    return tempfile.mkdtemp(prefix=prefix, dir=base)


def _java_cmd(extra_props=(), heap=None):
    cmd = ['java', '-XX:+UseParallelGC']
    if heap:
        cmd.append('-Xmx%s' % heap)
    for p in extra_props:
        cmd.append('-D' + p)
    cmd += ['-cp', JAR + ':' + DEPS, 'tlc2.TLC']
    return cmd


def write_cfg(path, constants=None, init='Init', next_='Next', spec=None, invariants=(), properties=(),
              view=None, constraint=None, action_constraint=None, symmetry=None, deadlock=False,
              postcondition=None, alias=None):
    lines = []
    if spec:
        lines.append('SPECIFICATION %s' % spec)
    else:
        lines.append('INIT %s' % init)
        lines.append('NEXT %s' % next_)
    if constants:
        lines.append('CONSTANTS')
        for k, v in constants.items():
            lines.append('  %s = %s' % (k, v) if not str(v).startswith('<-') else '  %s %s' % (k, v))
    for i in invariants:
        lines.append('INVARIANT %s' % i)
    for p in properties:
        lines.append('PROPERTY %s' % p)
    if view:
        lines.append('VIEW %s' % view)
    if constraint:
        for c in ([constraint] if isinstance(constraint, str) else constraint):
            lines.append('CONSTRAINT %s' % c)
    if action_constraint:
        lines.append('ACTION_CONSTRAINT %s' % action_constraint)
    if symmetry:
        lines.append('SYMMETRY %s' % symmetry)
    if postcondition:
        lines.append('POSTCONDITION %s' % postcondition)
    if alias:
        lines.append('ALIAS %s' % alias)
    lines.append('CHECK_DEADLOCK %s' % ('TRUE' if deadlock else 'FALSE'))
    with open(path, 'w') as f:
        f.write('\n'.join(lines) + '\n')
    return path


_RE_STATS = re.compile(r'(\d+) states generated, (\d+) distinct states found, (\d+) states left on queue')
_RE_DEPTH = re.compile(r'The depth of the complete state graph search is (\d+)')
_RE_INV = re.compile(r'Error: Invariant (\S+) is violated')
_RE_PROP = re.compile(r'Error: (?:Action|Temporal) propert(?:y|ies)(?: (\S+))? (?:is|was|were) violated')
_RE_SIMSTATES = re.compile(r'The number of states generated: (\d+)')
_RE_COV = re.compile(r'^<(\w+) line (\d+), col \d+ to line \d+, col \d+ of module (\w+)>: (\d+):(\d+)', re.M)


def _prepare(spec, workdir):
    """Copy all spec modules into workdir so TLC's output files stay out of /verif."""
    for f in glob.glob(os.path.join(SPEC_DIR, '*.tla')):
        shutil.copy(f, workdir)
    return os.path.join(workdir, os.path.basename(spec) if spec.endswith('.tla') else spec + '.tla')


def run(spec, cfg, workdir=None, workers=None, timeout=900, coverage=False, simulate=None, depth=None,
        seed=None, env=None, extra=(), heap=None, dfs_queue=False, deadlock_flag=False, dump_dot=None):
    """Run TLC.  `cfg` is a path (absolute, or relative to spec/cfg).  Returns TLCResult.
    Raises TLCError on anything that is neither a clean finish nor a property violation."""
    own = workdir is None
    if own:
        workdir = scratch('zv-tlc-')
    try:
        spec_path = _prepare(spec, workdir)
        if not os.path.isabs(cfg):
            cfg = os.path.join(SPEC_DIR, 'cfg', cfg)
        cfg_local = os.path.join(workdir, '_run_' + os.path.basename(cfg))
        shutil.copy(cfg, cfg_local)
        props = []
        if dfs_queue:
            props.append('tlc2.tool.queue.IStateQueue=StateDeque')
        cmd = _java_cmd(props, heap or os.environ.get('ZV_TLC_HEAP') or '6g')
        if simulate:
            cmd += ['-simulate', simulate]
            if depth:
                cmd += ['-depth', str(depth)]
        if seed is not None:
            cmd += ['-seed', str(seed)]
        if workers is None:
            workers = 1 if simulate else (os.cpu_count() or 4)
        cmd += ['-workers', str(workers), '-metadir', os.path.join(workdir, 'meta'), '-noGenerateSpecTE']
        if coverage:
            cmd += ['-coverage', '1']
        if deadlock_flag:
            cmd += ['-deadlock']
        if dump_dot:
            cmd += ['-dump', 'dot,actionlabels', dump_dot]
        cmd += list(extra)
        cmd += ['-config', cfg_local, spec_path]
        e = dict(os.environ)
        e.pop('JAVA_TOOL_OPTIONS', None)
        if env:
            e.update(env)
        t0 = time.time()
        try:
            p = subprocess.run(cmd, cwd=workdir, env=e, stdout=subprocess.PIPE, stderr=subprocess.STDOUT,
                               timeout=timeout, text=True, errors='replace')
        except subprocess.TimeoutExpired as ex:
            raise TLCError('TLC timed out after %ss on %s' % (timeout, spec)) from ex
        r = TLCResult()
        r.wall_s = time.time() - t0
        r.output = out = p.stdout
        m = None
        for m in _RE_STATS.finditer(out):
            pass
        if m:
            r.states_generated, r.distinct = int(m.group(1)), int(m.group(2))
        m = _RE_SIMSTATES.search(out)
        if m:
            r.states_generated = int(m.group(1))
        m = _RE_DEPTH.search(out)
        if m:
            r.depth = int(m.group(1))
        for m in _RE_COV.finditer(out):
            r.coverage[m.group(1)] = (int(m.group(4)), int(m.group(5)))
        mi = _RE_INV.search(out)
        mp = _RE_PROP.search(out)
        if mi:
            r.violation = mi.group(1)
        elif mp:
            r.violation = mp.group(1) or 'property'
        elif 'Error: Deadlock reached' in out:
            r.violation = 'deadlock'
        elif 'Temporal properties were violated' in out:
            r.violation = 'temporal'
        if r.violation:
            r.trace = tlaparse.parse_error_trace(out)
            return r
        if 'Model checking completed. No error has been found' in out or \
           (simulate and 'The number of states generated' in out and 'Error:' not in out):
            r.ok = True
            return r
        raise TLCError('TLC failed on %s (exit %s):\n%s' % (spec, p.returncode, out[-4000:]))
    finally:
        if own:
            shutil.rmtree(workdir, ignore_errors=True)


def simulate(spec, cfg, num, depth, seed, workdir, timeout=900, keep=None):
    """Generate `num` behaviours of length <= depth; returns list of behaviours
    (each a list of {action, args, state}).  Deterministic for a given seed."""
    outdir = os.path.join(workdir, 'sim')
    os.makedirs(outdir, exist_ok=True)
    r = run(spec, cfg, workdir=workdir, simulate='file=%s/tr,num=%d' % (outdir, num), depth=depth,
            seed=seed, workers=1, timeout=timeout)
    if not r.ok:
        raise TLCError('simulation of %s reported %s\n%s' % (spec, r.violation, r.output[-3000:]))
    files = sorted(glob.glob(os.path.join(outdir, 'tr_*')), key=lambda p: [int(x) for x in re.findall(r'\d+', os.path.basename(p))])
    behs = []
    for f in files:
        behs.append(tlaparse.parse_simulate_file(f))
        os.remove(f)
    return behs, r


_PRINT = re.compile(r'^(<<.*>>|".*")$')


def printed_values(output):
    """Values printed with PrintT (one per line) in a TLC run."""
    vals = []
    for line in output.splitlines():
        line = line.strip()
        if line.startswith('<<') and line.endswith('>>'):
            try:
                vals.append(tlaparse.parse_value(line))
            except tlaparse.ParseError:
                pass
    return vals


def validate_traces(spec, traces, workdir, constants=None, init='TInit', next_='TNext', report='Report',
                    timeout=900, name='traces'):
    """Batch trace validation (code -> spec).  `traces` is a list of event lists; one TLC run (-workers 1)
    validates them all; returns (set of accepted 0-based indices, {rejected index: longest matched prefix}, result)."""
    import json
    os.makedirs(workdir, exist_ok=True)
    tf = os.path.join(workdir, name + '.json')
    with open(tf, 'w') as f:
        json.dump(traces, f)
    cfg = os.path.join(workdir, name + '.cfg')
    write_cfg(cfg, constants=constants or {}, init=init, next_=next_, constraint=report)
    r = run(spec, cfg, workdir=workdir, workers=1, timeout=timeout, env={'TRACE_FILE': tf, 'TRACE_VERBOSE': '0'})
    if not r.ok:
        raise TLCError('trace validation run failed (%s):\n%s' % (r.violation, r.output[-3000:]))
    accepted = set()
    for v in printed_values(r.output):
        if len(v) == 2 and v[0] == 'ACCEPT':
            accepted.add(int(v[1]) - 1)
    rejected = {}
    bad = [i for i in range(len(traces)) if i not in accepted]
    if bad:
        # localise: re-run the rejected traces verbosely (in batches) and take the furthest position reached
        for lo in range(0, len(bad), 400):
            part = bad[lo:lo + 400]
            with open(tf, 'w') as f:
                json.dump([traces[i] for i in part], f)
            r2 = run(spec, cfg, workdir=workdir, workers=1, timeout=timeout, env={'TRACE_FILE': tf, 'TRACE_VERBOSE': '1'})
            far = {}
            for v in printed_values(r2.output):
                if len(v) == 3 and v[0] == 'AT':
                    far[int(v[1]) - 1] = max(far.get(int(v[1]) - 1, 0), int(v[2]))
            for j, i in enumerate(part):
                rejected[i] = far.get(j, 1) - 1          # number of events matched
    return accepted, rejected, r
