"""Parser for values and behaviours printed by TLC.

TLA+ values are mapped to Python as follows:
  integers -> int, strings -> str, TRUE/FALSE -> bool, model values -> MV(name)
  (a str subclass, so that it can be used as a dict key and compared with a plain
  string), sets -> frozenset, tuples/sequences -> tuple, records -> dict (str keys),
  functions  (k :> v @@ ...) -> dict, unless the domain is 1..n in which case TLC
  already prints a tuple.
"""
import re


class MV(str):
    """A TLC model value (printed as a bare identifier)."""
    __slots__ = ()

    def __repr__(self):
        return 'MV(%s)' % str.__repr__(self)


class FrozenDict(dict):
    """Hashable dict so that records / functions can be members of sets."""

    def __hash__(self):
        return hash(frozenset(self.items()))


class ParseError(Exception):
    pass


_TOKEN = re.compile(r'''
    \s*(?:
      (?P<int>-?\d+)
    | "(?P<str>(?:[^"\\]|\\.)*)"
    | (?P<op><<|>>|\|->|:>|@@|\.\.|[\[\]{}(),])
    | (?P<id>[A-Za-z_][A-Za-z0-9_!]*)
    )''', re.X)


def tokenize(s):
    pos = 0
    n = len(s)
    out = []
    while True:
        while pos < n and s[pos].isspace():
            pos += 1
        if pos >= n:
            break
        m = _TOKEN.match(s, pos)
        if not m:
            raise ParseError('cannot tokenize at %r' % s[pos:pos + 40])
        pos = m.end()
        if m.group('int') is not None:
            out.append(('int', int(m.group('int'))))
        elif m.group('str') is not None:
            out.append(('str', m.group('str').replace('\\"', '"').replace('\\\\', '\\')))
        elif m.group('op') is not None:
            out.append(('op', m.group('op')))
        else:
            out.append(('id', m.group('id')))
    return out


class _P:
    def __init__(self, toks):
        self.t = toks
        self.i = 0

    def peek(self):
        return self.t[self.i] if self.i < len(self.t) else (None, None)

    def next(self):
        tok = self.peek()
        self.i += 1
        return tok

    def expect(self, op):
        k, v = self.next()
        if k != 'op' or v != op:
            raise ParseError('expected %r got %r at token %d' % (op, v, self.i))

    def value(self):
        k, v = self.next()
        if k == 'int':
            if self.peek() == ('op', '..'):
                self.next()
                k2, hi = self.next()
                return frozenset(range(v, hi + 1))
            return v
        if k == 'str':
            return v
        if k == 'id':
            if v == 'TRUE':
                return True
            if v == 'FALSE':
                return False
            return MV(v)
        if k != 'op':
            raise ParseError('unexpected end')
        if v == '<<':
            items = []
            if self.peek() == ('op', '>>'):
                self.next()
                return ()
            while True:
                items.append(self.value())
                k2, v2 = self.next()
                if v2 == '>>':
                    return tuple(items)
                if v2 != ',':
                    raise ParseError('expected , or >> got %r' % (v2,))
        if v == '{':
            items = []
            if self.peek() == ('op', '}'):
                self.next()
                return frozenset()
            while True:
                items.append(_freeze(self.value()))
                k2, v2 = self.next()
                if v2 == '}':
                    return frozenset(items)
                if v2 != ',':
                    raise ParseError('expected , or } got %r' % (v2,))
        if v == '[':
            d = {}
            while True:
                k2, name = self.next()
                if k2 != 'id':
                    raise ParseError('expected field name got %r' % (name,))
                self.expect('|->')
                d[str(name)] = self.value()
                k3, v3 = self.next()
                if v3 == ']':
                    return d
                if v3 != ',':
                    raise ParseError('expected , or ] got %r' % (v3,))
        if v == '(':
            d = {}
            while True:
                key = _freeze(self.value())
                self.expect(':>')
                d[key] = self.value()
                k3, v3 = self.next()
                if v3 == ')':
                    return d
                if v3 != '@@':
                    raise ParseError('expected @@ or ) got %r' % (v3,))
        raise ParseError('unexpected token %r' % (v,))


def _freeze(v):
    if isinstance(v, dict):
        return FrozenDict((k, _freeze(x)) for k, x in v.items())
    if isinstance(v, tuple):
        return tuple(_freeze(x) for x in v)
    return v


def parse_value(s):
    p = _P(tokenize(s))
    v = p.value()
    if p.i != len(p.t):
        raise ParseError('trailing tokens after value: %r' % (p.t[p.i:p.i + 5],))
    return v


_ACT = re.compile(r'^\\\* <(?P<name>[A-Za-z_][A-Za-z0-9_]*)(?:\((?P<args>.*)\))? line \d+, col \d+ to line \d+, col \d+ of module (?P<mod>\w+)>\s*$')
_STATE_HDR = re.compile(r'^STATE_(\d+) ==\s*$')
_VAR = re.compile(r'^/\\ ([A-Za-z_][A-Za-z0-9_]*) = (.*)$', re.S)


def _split_args(s):
    """Split a top-level comma separated argument list (values may nest)."""
    if s is None or s.strip() == '':
        return []
    toks = tokenize(s)
    p = _P(toks)
    out = []
    while True:
        out.append(p.value())
        if p.i >= len(toks):
            return out
        p.expect(',')


def parse_state_block(text):
    """Parse '/\\ v = value' conjunct lines into a dict."""
    state = {}
    cur = None
    for line in text.splitlines():
        if line.startswith('/\\ '):
            if cur is not None:
                m = _VAR.match(cur)
                state[m.group(1)] = parse_value(m.group(2))
            cur = line
        elif cur is not None:
            cur += '\n' + line
    if cur is not None:
        m = _VAR.match(cur)
        if not m:
            raise ParseError('bad state conjunct %r' % cur[:80])
        state[m.group(1)] = parse_value(m.group(2))
    return state


def parse_simulate_file(path):
    """Return a behaviour: list of steps {action, args, state} from a file written
    by `tlc -simulate file=...`."""
    steps = []
    action = args = None
    block = []
    in_state = False

    def flush():
        if in_state:
            steps.append({'action': action, 'args': args,
                          'state': parse_state_block('\n'.join(block))})

    with open(path) as f:
        for line in f:
            line = line.rstrip('\n')
            m = _ACT.match(line)
            if m:
                flush()
                in_state = False
                block = []
                action = m.group('name')
                args = _split_args(m.group('args'))
                continue
            if _STATE_HDR.match(line):
                in_state = True
                block = []
                continue
            if line.startswith('====') or line.startswith('----'):
                continue
            if in_state:
                block.append(line)
    flush()
    return steps


_TRACE_STATE = re.compile(r'^State (\d+): <(?P<name>[A-Za-z_][A-Za-z0-9_ ]*?)(?:\((?P<args>.*)\))?(?: line \d+, col \d+ to line \d+, col \d+ of module \w+)?>\s*$')


def parse_error_trace(output):
    """Parse the counterexample TLC prints on stdout ('State n: <Action ...>')."""
    steps = []
    lines = output.splitlines()
    i = 0
    while i < len(lines):
        m = _TRACE_STATE.match(lines[i])
        if m:
            name = m.group('name').strip()
            if name == 'Initial predicate':
                name = 'Init'
            args = _split_args(m.group('args')) if m.group('args') else []
            i += 1
            block = []
            while i < len(lines) and lines[i].strip() != '' and not lines[i].startswith('State '):
                block.append(lines[i])
                i += 1
            steps.append({'action': name, 'args': args, 'state': parse_state_block('\n'.join(block))})
        else:
            i += 1
    return steps


def to_jsonable(v):
    if isinstance(v, (frozenset, set)):
        return sorted((to_jsonable(x) for x in v), key=repr)
    if isinstance(v, dict):
        return {str(k) if not isinstance(k, tuple) else repr(to_jsonable(k)): to_jsonable(x) for k, x in v.items()}
    if isinstance(v, tuple):
        return [to_jsonable(x) for x in v]
    if isinstance(v, MV):
        return str(v)
    return v
