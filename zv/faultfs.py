"""Recording / fault-injecting raw file layer, substituted from outside into the ZODB modules that do file I/O.

The module-global name `open` is injected into each target module (shadowing the builtin) and the names `os`
and `fsync` are replaced by a proxy.  `open` returns Python's own Buffered* objects over a RawIOBase subclass,
so what is recorded are the raw writes the buffering layer really issues, in the order the OS would see them.

LOG entries: dicts {seq, op, file, ...} with op in write(off, data) | truncate(size) | create | rename(dst) |
remove | fsync | mark(label).  From the log: crash images (any prefix, last write torn at any byte), fault
injection (raise OSError at the k-th mutating operation on chosen files), fsync-ordering evidence."""
import builtins
import errno
import io
import os
import sys

TARGETS = ('ZODB.FileStorage.FileStorage', 'ZODB.FileStorage.fspack', 'ZODB.fsIndex', 'ZODB.blob',
           'ZODB.scripts.repozo', 'ZODB.fsrecover')


class State:
    def __init__(self):
        self.root = None          # absolute directory being recorded
        self.log = []
        self.fd_names = {}
        self.fail_at = None       # index (among counted mutating ops) at which to raise
        self.fail_filter = None   # callable(entry) -> bool: which ops are counted
        self.fail_kind = 'error'  # 'error' | 'short'
        self.fail_persist = False
        self.counted = 0
        self.failed = 0
        self.enabled = True


S = State()


def reset(root):
    S.root = os.path.abspath(root)
    S.log = []
    S.fd_names = {}
    S.fail_at = None
    S.fail_filter = None
    S.counted = 0
    S.failed = 0
    S.fail_persist = False
    S.fail_kind = 'error'
    S.enabled = True


def rel(p):
    if S.root is None or not S.enabled:
        return None
    p = os.path.abspath(p)
    return os.path.relpath(p, S.root) if p.startswith(S.root + os.sep) else None


def mark(label, **kw):
    S.log.append(dict(kw, seq=len(S.log), op='mark', label=label, file=None))


def _record(entry):
    """Append a mutating op; returns 'fail' / 'short' when a fault is to be injected before it takes effect."""
    entry['seq'] = len(S.log)
    verdict = None
    if S.fail_at is not None and (S.fail_filter is None or S.fail_filter(entry)):
        if S.counted == S.fail_at or (S.fail_persist and S.counted > S.fail_at):
            verdict = S.fail_kind
            S.failed += 1
        S.counted += 1
    if verdict == 'error':
        S.log.append(dict(entry, op='failed-' + entry['op'], data=None))
        raise OSError(errno.ENOSPC, 'injected fault (zv.faultfs)')
    S.log.append(entry)
    return verdict


YIELD_IO = False      # when set, every raw read / write on a recorded file is a scheduler yield point


def _io_yield(what):
    if YIELD_IO:
        from . import sched
        if sched.S is not None and sched.S.me() is not None:
            sched.S.yield_(what)


class RecRaw(io.FileIO):
    def __init__(self, name, mode):
        self._rel = rel(name)
        existed = os.path.exists(name)
        super().__init__(name, mode)
        if self._rel is not None:
            S.fd_names[self.fileno()] = self._rel
            if 'w' in mode or 'x' in mode or ('a' in mode and not existed):
                _record({'op': 'create', 'file': self._rel})

    def readinto(self, b):
        if self._rel is None:
            return super().readinto(b)
        _io_yield('io-read')
        n = super().readinto(b)
        _io_yield('io-read-done')       # the buffer is filled, the caller has not looked at it yet
        return n

    def write(self, b):
        if self._rel is None:
            return super().write(b)
        _io_yield('io-write')
        data = bytes(b)
        off = os.fstat(self.fileno()).st_size if 'a' in self.mode else self.tell()
        entry = {'op': 'write', 'file': self._rel, 'off': off, 'data': data}
        v = _record(entry)
        if v == 'short' and len(data) > 1:
            entry['data'] = data[:len(data) // 2]
            super().write(entry['data'])
            raise OSError(errno.ENOSPC, 'injected short write (zv.faultfs)')
        return super().write(b)

    def truncate(self, size=None):
        if size is None:
            size = self.tell()
        if self._rel is not None:
            _record({'op': 'truncate', 'file': self._rel, 'size': size})
        return super().truncate(size)

    def close(self):
        try:
            S.fd_names.pop(self.fileno(), None)
        except (ValueError, OSError):
            pass
        return super().close()


def rec_open(name, mode='r', buffering=-1, *a, **k):
    if not isinstance(name, (str, bytes, os.PathLike)) or 'b' not in mode or rel(name) is None:
        return builtins.open(name, mode, buffering, *a, **k)
    raw = RecRaw(name, mode.replace('b', ''))
    if buffering == 0:
        return raw
    if '+' in mode:
        return io.BufferedRandom(raw)
    if 'r' in mode:
        return io.BufferedReader(raw)
    return io.BufferedWriter(raw)


class OSProxy:
    """Stands in for the `os` module inside the target modules."""

    def __init__(self):
        self.path = os.path

    def __getattr__(self, k):
        return getattr(os, k)

    def rename(self, a, b):
        if rel(a) is not None:
            _record({'op': 'rename', 'file': rel(a), 'dst': rel(b)})
        return os.rename(a, b)

    def replace(self, a, b):
        if rel(a) is not None:
            _record({'op': 'rename', 'file': rel(a), 'dst': rel(b)})
        return os.replace(a, b)

    def remove(self, a):
        if rel(a) is not None and os.path.exists(a):
            _record({'op': 'remove', 'file': rel(a)})
        return os.remove(a)

    unlink = remove

    def fsync(self, fd):
        name = S.fd_names.get(fd)
        if name is not None:
            _record({'op': 'fsync', 'file': name})
        return os.fsync(fd)


PROXY = OSProxy()
_installed = []


def install(targets=TARGETS):
    """Substitute into every target module; fail loudly if a name we rely on is gone."""
    took = 0
    for name in targets:
        try:
            __import__(name)
        except ImportError:
            continue
        m = sys.modules[name]
        m.open = rec_open
        if hasattr(m, 'os'):
            m.os = PROXY
        if hasattr(m, 'fsync'):
            m.fsync = PROXY.fsync
        _installed.append(name)
        took += 1
    fs = sys.modules['ZODB.FileStorage.FileStorage']
    if fs.fsync != PROXY.fsync or fs.os is not PROXY or fs.open is not rec_open:
        raise RuntimeError('file layer substitution did not take in ZODB.FileStorage.FileStorage')
    return took


# ---- crash images ----------------------------------------------------------------------------------------
def apply_op(files, e, cut=None):
    op = e['op']
    f = e.get('file')
    if op == 'create':
        files[f] = bytearray()
    elif op == 'write':
        b = e['data'] if cut is None else e['data'][:cut]
        buf = files.setdefault(f, bytearray())
        off = e['off']
        if len(buf) < off:
            buf.extend(b'\0' * (off - len(buf)))
        buf[off:off + len(b)] = b
    elif op == 'truncate':
        buf = files.setdefault(f, bytearray())
        if len(buf) > e['size']:
            del buf[e['size']:]
        else:
            buf.extend(b'\0' * (e['size'] - len(buf)))
    elif op == 'rename':
        if f in files:
            files[e['dst']] = files.pop(f)
    elif op == 'remove':
        files.pop(f, None)


def materialize(log, upto, torn=None, base=None):
    """Directory image {relname: bytes} after the first `upto` log entries (+ `torn` bytes of write number upto)."""
    files = {k: bytearray(v) for k, v in (base or {}).items()}
    for e in log[:upto]:
        apply_op(files, e)
    if torn is not None:
        apply_op(files, log[upto], torn)
    return files


def write_image(files, d, skip=('.lock',)):
    os.makedirs(d, exist_ok=True)
    for name, content in files.items():
        if name.endswith(skip):
            continue
        p = os.path.join(d, name)
        os.makedirs(os.path.dirname(p), exist_ok=True)
        with builtins.open(p, 'wb') as f:
            f.write(bytes(content))
