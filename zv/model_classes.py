"""Persistent classes the harness stores in the databases under test."""
import persistent


class VObj(persistent.Persistent):
    """Plain object: no conflict resolution."""

    def __init__(self, v=None, refs=()):
        self.v = v
        self.refs = list(refs)


class MObj(VObj):
    """Resolver that returns a term embedding its three arguments, so that the stored state
    read back *is* Merge(old, committed, new) of the specification."""

    def _p_resolveConflict(self, old, committed, new):
        refs = []
        seen = set()
        for st in (old, committed, new):
            for r in st.get('refs', ()):
                key = (getattr(r, 'oid', None), getattr(r, 'weak', None), getattr(r, 'database_name', None),
                       type(getattr(r, 'data', None)).__name__)
                if key not in seen:
                    seen.add(key)
                    refs.append(r)
        out = dict(new)
        out['v'] = ['M', old['v'], committed['v'], new['v']]
        out['refs'] = refs
        return out


class FObj(VObj):
    """Resolver that fails with an arbitrary exception."""

    def _p_resolveConflict(self, old, committed, new):
        raise RuntimeError('resolver failure injected by the harness')


class CObj(VObj):
    """Resolver that gives up with a ConflictError."""

    def _p_resolveConflict(self, old, committed, new):
        from ZODB.POSException import ConflictError
        raise ConflictError('resolver declines')


class NObj(VObj):
    """Class with constructor arguments (__getnewargs__)."""

    def __new__(cls, tag=None):
        ob = persistent.Persistent.__new__(cls)
        return ob

    def __init__(self, tag=None, v=None, refs=()):
        VObj.__init__(self, v, refs)
        self.tag = tag

    def __getnewargs__(self):
        return (self.tag,)


class Tag:
    """a plain value object that the class part and the state of an NMObj record share"""

    def __init__(self, name):
        self.name = name


class NMObj(MObj):
    """Resolving class with constructor arguments: the record's class part is (class, args) and the state refers
    back to an object first pickled in the class part (shared pickle memo)."""

    def __new__(cls, tag=None):
        return persistent.Persistent.__new__(cls)

    def __init__(self, tag=None, v=None, refs=()):
        MObj.__init__(self, v, refs)
        self.tag = tag

    def __getnewargs__(self):
        return (self.tag,)

    def _p_resolveConflict(self, old, committed, new):
        out = MObj._p_resolveConflict(self, old, committed, new)
        # the shared objects of all three states, as the resolver saw them
        out['tags'] = [old.get('tag'), committed.get('tag'), new.get('tag')]
        out['tag'] = Tag(repr(out['v']))      # every stored state carries the Tag of its own value
        return out
