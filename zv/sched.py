"""Deterministic cooperative scheduler over real threads.

Exactly one thread runs at a time (baton passing on one private Condition).  A thread yields before every
lock acquire, on Condition.wait and wherever the harness calls yield_(); release() never yields, so everything a
thread does between two yield points is atomic for every other thread.  Policies: seeded random walk (with a
priority-change flavour: the running thread is kept with probability `stick`), or directed (follow the thread
order of an expected event list).  A run is exactly repeatable from (scenario, seed)."""
import random
import threading


class Deadlock(RuntimeError):
    pass


class Sched:
    def __init__(self, seed, stick=0.5, budget=20000):
        self.rng = random.Random(seed)
        self.stick = stick
        self.cv = threading.Condition()
        self.cur = None
        self.threads = {}
        self.blocked = {}
        self.done = set()
        self.steps = 0
        self.events = []
        self.seq = 0
        self.budget = budget
        self.errors = {}
        self.outcome = 'ok'
        self.choices = []

    def emit(self, **ev):
        self.seq += 1
        ev['seq'] = self.seq
        ev['thread'] = self.me() or 'main'
        ev['step'] = self.steps
        self.events.append(ev)

    def trace_lines(self, wanted):
        """Also yield at every source LINE of the functions `wanted(code)` accepts (sys.settrace in the spawned
        threads): finds races inside regions that should be, but are not, protected by a lock - lock-operation
        granularity alone treats everything between two lock operations as atomic."""
        self._line_filter = wanted

    def _tracer(self, frame, event, arg):
        if event != 'call' or not self._line_filter(frame.f_code):
            return None

        def local(frame, event, arg):
            if event == 'line':
                self.yield_('line')
            return local
        return local

    def spawn(self, name, fn):
        def run():
            with self.cv:
                while self.cur != name:
                    self.cv.wait()
            if getattr(self, '_line_filter', None) is not None:
                import sys
                sys.settrace(self._tracer)
            try:
                fn()
            except Deadlock:
                pass
            except BaseException as ex:       # recorded, judged by the caller
                self.errors[name] = ex
            finally:
                with self.cv:
                    self.done.add(name)
                    self._pick()
        t = threading.Thread(target=run, daemon=True, name='zv-' + name)
        self.threads[name] = t
        t.start()

    def me(self):
        n = threading.current_thread()
        for k, t in self.threads.items():
            if t is n:
                return k
        return None

    def _runnable(self):
        return [k for k in sorted(self.threads) if k not in self.done and not (k in self.blocked and not self.blocked[k]())]

    def choose(self, runnable):
        if self.cur in runnable and self.rng.random() < self.stick:
            return self.cur
        return self.rng.choice(runnable)

    def _pick(self):
        r = self._runnable()
        if not r:
            self.cur = None
            if len(self.done) < len(self.threads):
                self.outcome = 'deadlock'
        elif self.steps > self.budget:
            self.cur = None
            self.outcome = 'budget'
        else:
            self.cur = self.choose(r)
            self.choices.append(self.cur)
        self.steps += 1
        self.cv.notify_all()

    def yield_(self, why, cond=None):
        me = self.me()
        if me is None:
            return
        with self.cv:
            if cond is not None:
                self.blocked[me] = cond
            self._pick()
            while self.cur != me:
                if self.cur is None:
                    self.blocked.pop(me, None)
                    raise Deadlock('%s at %s' % (self.outcome, why))
                self.cv.wait()
            self.blocked.pop(me, None)

    def go(self, timeout=60):
        with self.cv:
            self._pick()
            ok = self.cv.wait_for(lambda: len(self.done) >= len(self.threads) or self.cur is None, timeout)
            if not ok:
                self.outcome = 'timeout'
                self.cur = None
                self.cv.notify_all()
        for t in self.threads.values():
            t.join(2)
        return self.outcome


class Directed(Sched):
    """Follow an expected sequence of (thread) turns: run the thread that owns the next expected event."""

    def __init__(self, expected, owner_of, **kw):
        super().__init__(0, **kw)
        self.expected = list(expected)      # list of predicates over emitted events, with .thread
        self.owner_of = owner_of
        self.matched = 0

    def emit(self, **ev):
        super().emit(**ev)
        ev = self.events[-1]
        if self.expected and self.expected[0]['match'](ev):
            self.expected.pop(0)
            self.matched += 1

    def choose(self, runnable):
        if self.expected:
            want = self.expected[0]['thread']
            if want in runnable:
                return want
        return runnable[0]


class Plan(Sched):
    """Systematic preemption: follow a plan [(thread, n), ...] - run `thread` until it has passed n more yield points
    (or cannot run) - then run the remaining threads one after the other to completion in the given order (a thread
    that blocks lets the next one run).  Sweeping n over all yield points of a victim thread covers every schedule
    with that many preemptions exactly once, which seeded random walks reach only with small probability."""

    def __init__(self, plan, order, **kw):
        super().__init__(0, **kw)
        self.plan = [list(p) for p in plan]
        self.order = list(order)
        self.yields = {}
        self.plan_completed = False

    def choose(self, runnable):
        # the thread that just yielded is self.cur (None at the start)
        if self.cur is not None:
            self.yields[self.cur] = self.yields.get(self.cur, 0) + 1
            if self.plan and self.plan[0][0] == self.cur:
                self.plan[0][1] -= 1
        while self.plan:
            th, n = self.plan[0]
            if n > 0 and th in runnable:
                return th
            self.plan.pop(0)             # segment finished, or its thread is done / blocked
        self.plan_completed = True
        for th in self.order:
            if th in runnable:
                return th
        return runnable[0]


S = None       # the scheduler of the current run


def _me():
    return (S.me() if S is not None else None) or 'main'


class SLock:
    reentrant = False

    def __init__(self):
        self.owner = None
        self.count = 0

    def acquire(self, blocking=True, timeout=-1):
        me = _me()
        if self.reentrant and self.owner == me:
            self.count += 1
            return True
        if S is not None and S.me() is not None:
            if not blocking and self.owner is not None:
                return False
            S.yield_('acquire', lambda: self.owner is None)
        elif self.owner is not None:
            raise RuntimeError('lock held by %s while the unscheduled main thread wants it' % self.owner)
        self.owner = me
        self.count = 1
        return True

    def release(self):
        self.count -= 1
        if self.count <= 0:
            self.owner = None
            self.count = 0

    def locked(self):
        return self.owner is not None

    __enter__ = acquire

    def __exit__(self, *a):
        self.release()

    def _is_owned(self):
        return self.owner == _me()


class SRLock(SLock):
    reentrant = True


class SCond(SRLock):
    def __init__(self, lock=None):
        super().__init__()
        self.gen = 0

    def wait(self, timeout=None):
        me = _me()
        g = self.gen
        c = self.count
        self.count = 0
        self.owner = None
        if S is not None and S.me() is not None:
            S.yield_('wait', lambda: self.gen != g and self.owner is None)
        self.owner = me
        self.count = c
        return True

    def notify_all(self):
        self.gen += 1

    def notify(self, n=1):
        self.gen += 1

    notifyAll = notify_all


def install():
    """Substitute the lock classes ZODB uses (harness side)."""
    import ZODB.utils
    import ZODB.mvccadapter
    ZODB.utils.Lock = SLock
    ZODB.utils.RLock = SRLock
    ZODB.utils.Condition = SCond
    ZODB.mvccadapter.Lock = SLock
    if ZODB.mvccadapter.Lock is not SLock:
        raise RuntimeError('lock substitution did not take')
