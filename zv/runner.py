"""Common frame of every check: arguments, seeds, verdict lines, replays, evidence, exit status.

exit 0: the property held on everything explored (known findings printed as KNOWN-FINDING)
exit 1: at least one violation not listed in known_findings.json (VIOLATION line printed)
exit 2: machinery failure (TLC error, substitution point missing, ...) - never a pass."""
import argparse
import hashlib
import importlib
import json
import os
import shutil
import sys
import time
import traceback

from . import evidence, findings, tlc

ROOT = os.path.dirname(os.path.dirname(os.path.abspath(__file__)))


class Ctx:
    def __init__(self, pid, tier, seed, repo, replay=None):
        self.pid = pid
        self.tier = tier
        self.seed = seed
        self.repo = repo
        self.replay = replay
        self.t0 = time.time()
        self.scratch = tlc.scratch('zv-%s-' % pid)
        self.violations = []          # unlisted
        self.known = {}               # finding id -> (finding, count, first description)
        self._findings = findings.load()
        self.model = {'states': 0, 'transitions': 0, 'runs': []}
        self.notes = []
        self.quick = tier == 'quick'

    # -- TLC bookkeeping -------------------------------------------------
    def add_tlc(self, name, r):
        self.model['states'] += r.distinct or r.states_generated
        self.model['transitions'] += r.states_generated
        self.model['runs'].append(dict(r.summary(), name=name))

    def model_check(self, spec, cfg, name=None, expect_violation=None, **kw):
        """Run TLC exhaustively.  A violation of the *specification's* property is either
        expected (a deviation constant set to the code's behaviour: the counterexample is
        returned for replay against the code) or a machinery failure (the model of the design
        is wrong or the design is broken - to be looked at by a human, never silently passed)."""
        r = tlc.run(spec, cfg, workdir=None, **kw)
        self.add_tlc(name or cfg, r)
        if expect_violation is None and not r.ok:
            raise tlc.TLCError('%s/%s: unexpected violation of %s\n%s' % (spec, cfg, r.violation, r.output[-3000:]))
        if expect_violation is not None and r.violation != expect_violation:
            raise tlc.TLCError('%s/%s: expected violation of %s, got %s' % (spec, cfg, expect_violation, r.violation))
        return r

    # -- verdicts ----------------------------------------------------------
    def violation(self, signature, description, replay=None):
        """Record a divergence between code and specification / property."""
        f = findings.match(self.pid, signature, self._findings)
        if f is not None:
            ent = self.known.setdefault(f['id'], [f, 0, description])
            ent[1] += 1
            return False
        h = hashlib.sha1(json.dumps([signature, description], sort_keys=True, default=str).encode()).hexdigest()[:12]
        rdir = os.path.join(ROOT, 'replays') if os.path.realpath(self.repo) == '/repo' else '/tmp/zv-replays'
        path = os.path.join(rdir, '%s-%s.json' % (self.pid, h))
        if len(self.violations) < 25:
            os.makedirs(os.path.dirname(path), exist_ok=True)
            with open(path, 'w') as fp:
                json.dump({'property': self.pid, 'signature': signature, 'description': description,
                           'seed': self.seed, 'tier': self.tier, 'replay': replay}, fp, indent=1, default=str)
        self.violations.append({'signature': signature, 'description': description, 'replay': path})
        return True

    def finish(self, coverage, assumptions, level='model_checking'):
        cov = dict(coverage)
        if level == 'model_checking':
            cov.setdefault('states', self.model['states'])
            cov.setdefault('transitions', self.model['transitions'])
            cov.setdefault('traces_validated_against_impl', cov.get('evaluations', 0))
        cov['tlc_runs'] = self.model['runs']
        cov['known_findings_hit'] = {k: v[1] for k, v in self.known.items()}
        if self.notes:
            cov['notes'] = self.notes
        for fid, (f, n, d) in sorted(self.known.items()):
            print('KNOWN-FINDING: property=%s %s [%s; %d occurrence(s); e.g. %s]' % (self.pid, f['title'], fid, n, d))
        seen = set()
        for v in self.violations:
            key = json.dumps(v['signature'], sort_keys=True, default=str)
            if key in seen:
                continue
            seen.add(key)
            print('VIOLATION property=%s replay=%s' % (self.pid, v['replay']))
            print('  signature: %s' % json.dumps(v['signature'], sort_keys=True, default=str))
            print('  %s' % v['description'])
        cov['violation_signatures'] = [v['signature'] for v in self.violations[:10]]
        path = None
        if os.path.realpath(self.repo) != '/repo':       # a scratch tree (self-test): keep /verif/evidence untouched
            path = os.path.join(os.environ.get('ZV_EVIDENCE_DIR') or self.scratch, '%s.json' % self.pid)
        evidence.write(self.pid, self.tier, self.seed, level, cov, assumptions, time.time() - self.t0, len(self.violations), path)
        return 1 if self.violations else 0

    def cleanup(self):
        shutil.rmtree(self.scratch, ignore_errors=True)


def main(argv=None):
    ap = argparse.ArgumentParser(prog='check')
    ap.add_argument('pid')
    ap.add_argument('--tier', default=os.environ.get('VERIF_TIER') or 'quick', choices=['quick', 'thorough'])
    ap.add_argument('--repo', default=os.environ.get('ZV_REPO') or '/repo')
    ap.add_argument('--replay')
    ap.add_argument('--seed', type=int, default=None)
    a = ap.parse_args(argv)
    seed = a.seed if a.seed is not None else int(os.environ.get('VERIF_SEED') or 0)
    pid = a.pid.upper()
    os.environ.setdefault('PYTHONHASHSEED', '0')
    ctx = Ctx(pid, a.tier, seed, a.repo, a.replay)
    os.environ.setdefault('ZV_PMAP_TIMEOUT', '900' if a.tier == 'quick' else '9000')
    try:
        from . import env
        env.setup(a.repo)
        m = importlib.import_module('zv.checks.%s' % pid.lower())
        if a.replay:
            with open(a.replay) as f:
                rc = m.replay(ctx, json.load(f))
        else:
            rc = m.run(ctx)
        print('%s tier=%s seed=%d: %s in %.1fs' % (pid, a.tier, seed, 'OK' if rc == 0 else 'VIOLATIONS', time.time() - ctx.t0))
        return rc
    except SystemExit:
        raise
    except BaseException as ex:
        from . import par
        if isinstance(ex, par.Hang):
            # calls into the code under test never returned: on the unchanged tree every call returns
            ctx.violation({'kind': 'hang'}, 'calls into the code under test never returned: %s' % ex)
            for v in ctx.violations:
                print('VIOLATION property=%s replay=%s' % (pid, v['replay']))
                print('  signature: %s' % json.dumps(v['signature'], sort_keys=True))
                print('  %s' % v['description'][:300])
            print('%s tier=%s seed=%d: VIOLATIONS in %.1fs' % (pid, a.tier, seed, time.time() - ctx.t0))
            return 1
        traceback.print_exc()
        print('MACHINERY-FAILURE property=%s (exit 2; not a verdict)' % pid)
        return 2
    finally:
        ctx.cleanup()


if __name__ == '__main__':
    sys.exit(main())
