"""Writes MANIFEST.json from the table below (python -m zv.manifest)."""
import json
import os

ROOT = os.path.dirname(os.path.dirname(os.path.abspath(__file__)))

CHECKS = {
    'C04': dict(
        technique='TLA+ spec ZStorage/ZHistory model-checked by TLC; TLC-generated behaviours replayed call-by-call on '
                  'FileStorage and MappingStorage with the full revision-query table compared after every call',
        text='TLC checks TidsStrictlyIncrease and the history semantics exhaustively on small constants (all clock '
             'behaviours folded into Begin); conformance: behaviours of a larger configuration are replayed on the real '
             'storages, and after every API call every query of the bounded universe (loadBefore at each tid boundary, '
             'load, loadSerial, history, iterator with data_txn and with start / stop bounds, undoLog whole and in windows with a filter, '
             'lastInvalidations, record_iternext, lastTransaction, len) must equal the table '
             'TLC printed for that state, including across close/reopen; committer threads on each storage kind under the scheduler '
             '(random and systematic single-preemption schedules) must leave the TLC-evaluated serial execution in finish order.',
        note='bounded model (small-scope); behaviours sampled by seeded TLC simulation; protocol assumption: a failed '
             'storage call is followed by tpc_abort',
        design='6/C04'),
    'C01': dict(
        technique='TLA+ spec ZFile (commit protocol at raw-operation level with crash recovery) model-checked by TLC; traces '
                  'of the real FileStorage recorded by a harness-side file layer, with crash-image probes, validated by TLC '
                  'against ZFileTrace',
        text='TLC checks CrashConsistent / OnlyFlippedSurvives / FsyncBeforeAck on ZFile; conformance (code -> spec): TLC '
             'behaviours of ZStorage run on a real FileStorage over a recording raw-file layer; every operation boundary and '
             'byte-prefixes of every data-file write become crash images reopened with the real FileStorage, the full query '
             'table of the recovered storage must equal a version of the model history, and TLC validates each trace '
             '(operation order, flags, fsync between flip and acknowledgement, every probe = number of flipped transactions).',
        note='every third crash image is also opened read-only (same committed prefix; F29 fixed); crash model = prefix of issued raw operations with torn last write; quick samples torn cuts, thorough enumerates '
             'every byte for 1 in 5 behaviours',
        design='6/C01'),
    'C08': dict(
        technique='TLA+ specs ZPackConc (pack/commit lock hand-over, failing pack, crash) and ZFile/ZFileTrace model-checked '
                  'and used for trace validation; crash images after every raw operation of a pack, fault injection into the '
                  'pack, and packer/committer/reader threads under a deterministic scheduler judged against a TLC-evaluated '
                  'serial equivalent',
        text='TLC checks CrashSafe/NoCommitLost/PackerReleases/FailedPackUnchanged on the atomic-swap design and exhibits the '
             'two-rename window of the code (F6, known finding); A: every raw operation of real packs yields a crash image that '
             'must reopen to the unpacked or packed version (validated by TLC, known findings skipped and the rest re-validated); '
             'B: each write of the .pack file fails in turn: database unchanged and usable; C: real threads (packer, 1-2 '
             'committers, reader, second packer) under the scheduler: final storage in memory and after reopen equals '
             'pack(serial history) as evaluated by TLC, readers only see committed revisions, second pack refused; systematic '
             'single-preemption sweeps (each thread stopped after its k-th yield point while the others run to completion), with and '
             'without a blob directory.',
        note='lister thread (iterator / undoLog / lastInvalidations during a pack; F56 fixed), failing removal of .old (F33 fixed), three pack requests never side by side; schedules at lock-operation and file-I/O granularity, seeded random plus systematic sweeps; readers use current loads (snapshots not older than the pack time)',
        design='6/C08'),
    'C09': dict(
        technique='same ZFile/ZFileTrace specification; probes opening every quiescent directory state with every earlier saved '
                  'index (also truncated, with leftover side files) and read-only, validated by TLC',
        text='IndexIsCache and ReadOnlyWritesNothing as trace properties: at every point where an API call returned the '
             'directory is opened without index, with each earlier saved .index (incl. pre-pack ones, cut short, with leftover '
             '.tmp/.pack/.old/.index_tmp/.lock) and read-only; the opened storage must answer every query like the version of '
             'the history the data file alone determines; read-only opens must leave the directory byte- and mtime-identical '
             'and refuse 7 writing calls.',
        note='time travel (stop=tid) with / without index (F51 fixed), read-only open with a missing blob directory (F52 fixed); pack crash states belong to C08; bit damage inside an index is outside the guarantee',
        design='6/C09'),
    'C02': dict(
        technique='TLA+ spec ZMvcc (MVCC adapter, connection cache, pool, finish/invalidation at lock granularity) '
                  'model-checked by TLC; traces of real multi-threaded runs under a deterministic scheduler validated by TLC',
        text='TLC checks CacheCoherent, Fresh, NotFromTheFuture, VotedOnCurrent, LockDiscipline over all interleavings of 2 '
             'connections x 2 objects x 3-4 commits with close/reopen, and rejects the known-bad design (mutant constant); '
             'conformance (code -> spec): seeded multi-connection programs run on the real DB/Connection/MVCCAdapter over '
             'FileStorage and MappingStorage, one real thread per connection under a cooperative scheduler switching at lock '
             'operations; every recorded step must be a ZMvcc step with the logged snapshot, cache projection, serials and '
             'tids, and all invariants are evaluated in every state of every trace; programs include modify+abort, cache minimise in '
             'mid-transaction, sync(), undo, readCurrent, savepoints, commits aborted after the vote; next to seeded random schedules, '
             'systematic one- and two-level preemption sweeps (a thread stopped after its k-th yield point for every k) over '
             'directed programs, with records larger than a read buffer and yield points before and after every raw file read.',
        note='programs incl. voted-then-aborted commits, savepoint rollback with readCurrent (F50 fixed), window sweep at source-line granularity inside the read-file pool (F39 fixed); lock-operation and file-I/O granularity; seeded random schedules (quick 600, thorough 20000) plus systematic sweeps; packer threads in C08',
        design='6/C02'),
    'C03': dict(
        technique='TLA+ spec ZStorage (NoLostUpdate, StoredIsMerge) model-checked by TLC; conflict-heavy TLC behaviours '
                  'replayed on FileStorage and MappingStorage, outcome of every store/checkCurrent compared',
        text='TLC checks on the specification that every committed data revision has as base the tid of the immediately '
             'preceding revision or is a merge; conformance: for behaviours in which clients store with every serial they '
             'could hold, the real storages must raise ConflictError/ReadConflictError exactly when the specification '
             'does and the resulting committed history must equal the specification history; 2-3 committer threads on FileStorage, '
             'MappingStorage and DemoStorage under the cooperative scheduler must leave the TLC-evaluated serial execution in '
             'the order the commits returned.',
        note='storage-level; demo layering in C16; connection-level readCurrent in C02',
        design='6/C03'),
    'C05': dict(
        technique='TLA+ spec ZStorage action properties (AbortRestores, WrongTxnNoEffect, NextCanBegin) model-checked by '
                  'TLC; TLC behaviours with aborts at every phase replayed, query table and data-file bytes compared',
        text='TLC checks that an abort or any refused call leaves history and every answer unchanged and frees the commit '
             'lock; conformance: behaviours with aborts after begin / stores / refused calls / vote, over-long metadata, stores '
             'refused by the file-size quota, every low-level write of the vote failing in turn (error / short write), a reader '
             'racing with the vote, foreign-transaction calls are replayed: query table equal to the table before begin, data '
             'file byte-identical, following transactions commit as specified; a call that never returns is reported (watchdogs).',
        note='the abort-heavy behaviours also run through a DemoStorage over the FileStorage (F30 fixed); persistent I/O failure (every later operation fails too) is a labelled class of the thorough tier (F13); blobs in C13',
        design='6/C05'),
    'C06': dict(
        technique='TLA+ transcription of FileStorage._transactionalUndoRecord in ZStorage, UndoSemantics checked by TLC; '
                  'undo-heavy TLC behaviours and directed undo / pack / reopen scripts replayed on FileStorage',
        text='TLC checks UndoSemantics (objects written by the undone transaction read as just before it, or carry the '
             'class merge; everything else untouched; failure changes nothing) on the specification; conformance: undo() '
             'on the real FileStorage must return the same oids or raise UndoError exactly as specified and all queries '
             'must equal the specification table after commit and after reopen.',
        note='differential pack transparency (the same calls with / without the pack entries, both evaluated by TLC): F40 known; storage API level; visibility of an undo to other connections at their next boundary is decided by the C02 traces '
             '(UndoVote / Deliver to every instance, cache projection at PollApply)',
        design='6/C06'),
    'C10': dict(
        technique='TLA+ spec ZStorage with uninterpreted Merge (StoredIsMerge) model-checked by TLC; behaviours replayed '
                  'with a resolver class that returns a term embedding its three arguments',
        text='The stored record read back is structurally Merge(old, committed, new) with the union of references; TLC '
             'checks StoredIsMerge; conformance over classes plain / resolving / failing / not importable / declining / resolving with '
             'constructor arguments that share pickled objects with the state, over strong / weak / bare reference formats, on '
             'store and undo paths, tpc_vote returning exactly the resolved oids.',
        note='cross-database reference formats incl. a class not importable at resolution time; file storage paths; demo path in C16',
        design='6/C10'),
    'C07': dict(
        technique='TLA+ transcription of the FileStorage packer and of MappingStorage.pack at history level checked by TLC '
                  'against the relation PackOK; TLC behaviours with packs replayed on both storages',
        text='PackOK (snapshots >= T of reachable objects unchanged, post-T transactions unchanged, only superseded or '
             'unreachable revisions removed, failed/redundant packs change nothing, immediate re-pack is a no-op) is checked '
             'by TLC on the transcriptions exhaustively for small constants and along every simulated behaviour; '
             'conformance: the real packed history and all queries on the record chain equal the transcription result, '
             'including commits, undos and reopen after the pack.',
        note='PackOK evaluated by TLC clause by clause at every pack step of every script (F54 known); objects referenced by bare oid only; tid-reuse monitor (F55 fixed); multi-undo (F27 fixed); history level (bytes of the pack in C08/C09 machinery); pack times at second boundaries; blobs in C13',
        design='6/C07'),
    'C11': dict(
        technique='TLA+ spec ZConn (Connection bookkeeping: registered/added/creating/modified, cache membership, commit split into '
                  'Begin/Store(o)/Stored/Vote/Finish with a failure alternative at each, abort, close, reopen, MVCC snapshot) '
                  'model-checked by TLC; deviation constants decided by replaying TLC counterexamples; every transition of the dumped '
                  'state graphs replayed on real connections',
        text='TLC checks NewDisowned, AbortRestores, CleanAfterCommit, NoStateAcrossReuse, CloseOnlyOutsideTxn, CommittedTogether, '
             'CommitStoresFinalStates on the design and exhibits F16/F23 with the constants set; tours covering the graphs (new objects, '
             'committed objects + second writer, one object with close/reopen, one savepoint) are replayed on '
             'PersistentMapping/PersistentList/VObj over Mapping/File(/Demo)Storage; failures are a real conflict, a harness resource '
             'manager failing in each phase before/after the connection, an unpicklable value; after every action (4 points inside '
             'commit) jar/oid/_p_changed/serial/state, the connection sets, what a load returns, a second connection view and the '
             'last transaction records must equal the state TLC printed.',
        note='BeginFails, AddWhileFailed (F41 fixed), ImportInTxn (F34 fixed), commit-lock probe and watchdog; bounded (2 objects, 3 actions per transaction, 1-2 commits; quick samples the graphs, thorough replays all transitions + '
             '3-object simulation); F16, F23 known findings; C persistent/transaction trusted',
        design='6/C11'),
    'C12': dict(
        technique='TLA+ spec ZConn (TmpStore position/index/creating/blob files, savepoint state tuples and ghost snapshots, Rollback(k) '
                  'incl. AbortSavepoint, CommitSp, conflict at commit) model-checked by TLC; graphs replayed on real connections',
        text='TLC checks RollbackRestores (ownership / value on access / root contents / blob bytes = snapshot at Savepoint(k), '
             'repeated and nested), SavepointInvisible, NothingLeftBehind, CommitStoresFinalStates on the design and exhibits F2/F3 '
             'with the constants set (F2 fixed a524578: red if the aliasing returns); tours over five graphs (two savepoints, repeated '
             'rollback, reachability, conflict at commit, blobs, a savepoint or savepoint-commit raising part-way) replayed with projection of TmpStore and of every live savepoint '
             'state tuple and validity, store file closed / blob directory gone, a second connection polled after every action.',
        note='import graphs; rollback after a second savepoint; bounded (<=3 savepoints, <=6 actions per transaction; quick samples, thorough exhaustive + simulation); F3 known finding; '
             'state of un-added objects judged by C11',
        design='6/C12'),
    'C13': dict(
        technique='TLA+ spec ZBlob (blob directory, dirty list, tmp/savepoint files, Connection/TmpStore bookkeeping, undo and both '
                  'blob packers on top of ZPackOps; deviation constants AbortNeedsVote/NonUndoPack/SpbPerSerial) model-checked by TLC; '
                  'TLC counterexamples, TLC-evaluated call scripts (ZBlobScript) and -simulate walks replayed through real '
                  'DB/Connection/Blob objects',
        text='TLC checks FilesMatchRecords, UncommittedInvisible, SnapshotsReadable, NothingLeftBehind, CommittedFilesImmutable, '
             'PackRemovesExactly on the design for both flavours and exhibits F4/F15/F3 with a constant set; each counterexample is '
             'replayed to choose the model of the tree. Conformance: every Blob call x every end of the commit (finish, abort after '
             'begin/stores/vote, ConflictError after the blob was stored) x savepoint/rollback x second object x racing writer, '
             'undo/redo chains incl. of a creation and failing undo, packs at every time with/without pack_keep_old; after every call '
             'the *.blob files (oid, tid, md5, mode), <blobs>.old, dirty_oids, tmp/, reads through fresh and per-tid historical '
             'connections, c1 views and the iterator must equal the TLC state; the C13 verdict per state is the derived variable viol.',
        note='three flavours (FileStorage+blob_dir, wrapper over Mapping, wrapper over FileStorage); foreign calls at every phase, late bookkeeping race, failing copies / chmod, open handles, pack during commit (F31 F32 F42-F45 fixed; F48 known); exhaustive only on 1 blob/1 atom/2-3 transactions; replays 3-4 blobs, <=10 transactions; F4 fixed (f22d60a), F15 and F3 '
             'known findings; BlobStorage over an undo-capable storage not covered; tmp/ leaks counted not judged',
        design='6/C13'),
    'C14': dict(
        technique='TLA+ spec ZGraph (persistence by reachability, persistent_id reference formats, referencesf/get_refs case '
                  'analysis, pack-gc and export as consumers) model-checked by TLC; all small graphs and simulated mutation '
                  'programs replayed on real connections',
        text='TLC checks RoundTrip, ExtractExact, StoredIffReachableOrAdded, NoDangling, PackKeepsReachable exhaustively and '
             'enumerates all small graphs / simulates mutation programs; each is built from real classes (plain, __getnewargs__, '
             'missing), committed on Mapping/FileStorage in a 2-database multi-database with 6 oid byte patterns (incl. all-ASCII), '
             'loaded in another connection; every raw record is decoded without ZODB.serialize and referencesf/get_refs are '
             'compared with the reference sets TLC printed.',
        note='savepoints / rollback / import in the mutation programs, connection life-cycle; F34 fixed, F35-F38 known; pickle byte level not modelled; import judged on ordinary-reference exports only; the weak-adds deviation is the '
             'named constant WeakAdds; F20 (placeholder newargs lost on ghostification) known finding',
        design='6/C14'),
    'C15': dict(
        technique='TLA+ spec ZHistorical model-checked by TLC; directed histories evaluated by TLC (ZScript/ZStorage) replayed '
                  'on FileStorage, historical connections opened at every bound/form and compared with the printed table',
        text='TLC checks HistoricalExact, NeverFromTheFuture, BoundNotInFuture, WritesRefused; conformance: after every commit '
             'of TLC-evaluated histories (later-changed, deleted, un-created, later-created objects, stalled clock) real '
             'historical connections are opened with before=tid, at=tid, datetime forms (sub-second, whole-second, naive and timezone-aware), every '
             'object read and compared with the loadBefore table TLC printed; connections kept open across later commits are '
             're-read; writes must raise ReadOnlyHistoryError and leave the commit lock free; future points must be refused; secondary '
             'connections of a multi-database obtained from a historical connection must carry the same bound, read the same state '
             'and refuse writes.',
        note='multi-database secondary connections, DemoStorage histories, live + historical connection in one transaction (F57 fixed); FileStorage histories without pack; sampled bounds (5 per commit) in quick',
        design='6/C15'),
    'C16': dict(
        technique='TLA+ spec ZDemo (DemoStorage as a stack of ZHistory layers: transcription of loadBefore with the seam walk, '
                  'load, loadSerial, getTid, history, iterator, lastTransaction, store with conflict detection/resolution across '
                  'the layers, undo, new_oid, pack, push/pop, next to the meaning ObsTable(base o changes)) model-checked by TLC; '
                  'TLC-evaluated directed scenarios (ZDemoScript), TLC counterexamples and TLC-simulated behaviours replayed '
                  'call-by-call on real DemoStorage stacks',
        text='TLC checks DemoObs / TidsIncreaseAcrossLayers / BaseUnchanged / ConflictAcrossLayers / UndoInChangesOnly / '
             'OidFreshBothLayers / PushPop for the repaired design and Explained for the code as it is (deviations behind '
             'constants), per base x changes kind; conformance: after every call on DemoStorage(base in {mapping, file}, '
             'changes in {mapping, file, file+blobs, own}) incl. push/pop and adversarial _next_oid the outcome, the full '
             'query table (loadBefore at every tid boundary, load, loadSerial, getTid, history at every size, iterator whole '
             'and from every start, undoLog, lastTransaction, len) must equal what TLC printed, and every storage below the '
             'top must be byte/record-identical to its snapshot; states where TLC says transcription != meaning and the code '
             'conforms are reported with the cause as signature; 2-3 committer threads on DemoStorage (plain, over a base with '
             'history, with FileStorage changes) under the cooperative scheduler must leave the TLC-evaluated serial execution in '
             'the order the commits returned (tids increasing in that order).',
        note='blob records through storeBlob / loadBlob (F28 fixed), pack-seam family (F53 known), committer threads; bounded (2 oids, <=3 layers; exhaustive <= 2+3 transactions, scenarios/simulation <= 12); base not packed; blob '
             'records in C13; F10 fixed (b44a8d5); F24, F25, F26 known findings; c16.TREE holds the deviation constants of the tree',
        design='6/C16'),
    'C17': dict(
        technique='TLA+ specs ZRecover (transcription of BaseStorage.copy + FileStorage.restore/_data_find at history level, '
                  'CopyFaithful), ZRecoverTool (fsrecover loop) and ZRecoverScan (transcription of scan(), liveness) model-checked '
                  'by TLC; TLC histories replayed, copied and compared with the TLC table; recorded runs of the real '
                  'fsrecover.recover on damaged files validated by TLC (ZRecoverTrace); every scan pattern replayed on the real scan()',
        text='(a) every TLC behaviour (commit/undo/pack-heavy, directed scenarios, blob records) is replayed on a real source, copied '
             '(copyTransactionsFrom, BaseStorage.copy, into/out of blob storages, MappingStorage->FileStorage, iterator ranges) and '
             'the full query table of the copy, also after reopen, and blob bytes must equal what TLC printed; (b) data files of '
             'TLC histories are damaged at item-boundary positions (thorough: every byte) with 0x00/0xff/./noise or truncated, '
             'recover() runs under step and wall watchdogs with read_txn_header/scan/tpc_finish/tpc_abort recorded, TLC validates '
             'every run against the loop model and judges Terminates, prefix-before-damage recovered, output an ordered unchanged '
             'subsequence, undamaged file identical; (c) TLC proves Terminates for the repaired scan transcription, exhibits the '
             'F5 lasso with AsCode=TRUE, and the real scan() must give the dumped graph result on every dot/fill pattern.',
        note='range copies src.iterator(start) evaluated by TLC (F59 fixed, F60 known); fsrecover output judged record for record (F58 fixed); bounded models; single damaged range or truncation per run; transactions touching damaged bytes (own or through '
             'back-pointers) are exempt from "unchanged"; below a pack time only the record chain is judged (F17); F5 fixed '
             '(6b5c235), F22 fixed (bb4d219)',
        design='6/C17'),
    'C18': dict(
        technique='TLA+ spec ZRepozo (transcription of do_backup/find_files/scandat/delete_old_backups, derived recover/verify '
                  'tables) model-checked by TLC; the whole dumped state graph replayed on a real FileStorage + real repozo calls',
        text='TLC checks RecoverExact / BackupOnlyCompleteTxns / VerifyDetects on the design for all 16 option combinations and '
             'exhibits F14/F18 with the deviation constants set; counterexamples are replayed on the code to choose the constants; '
             'every transition of the graph (commit, in-progress tail, abort, pack, backup with full/quick/gzip/kill-old, damage '
             'missing/truncated/altered) is replayed, every state recovery at every run date (bytes vs the snapshot of the '
             'committed part, restored index vs a scan, pair opened by FileStorage) and full+quick verification are real calls '
             'compared with the table TLC printed and with what the property demands.',
        note='same-second backups (F46 fixed), truncated dates (F47 fixed), damage to every file of every generation (F49 known); bounded (3 chunks, 3 runs, 6/7 operations; deeper graphs sampled in thorough); equal-sized transactions; F14 fixed '
             '(b25fa04), F18 recorded as known findings (chain selection by directory listing)',
        design='6/C18'),
    'C19': dict(
        technique='TLA+ spec ZFsIndex (flat ordered-map meaning next to a transcription of fsIndex two-level state and of the '
                  'minKey/maxKey case analysis) model-checked by TLC; every transition of the dumped state graph executed on a '
                  'real fsIndex under several byte concretisations, every query compared with the table TLC printed',
        text='TLC checks Refines/QueriesAgree/BoundsAgree/RoundTrip for every index over 3x3 (thorough: up to 4x3, 3x4, 4x4 with <=4 '
             'keys, 2 values) and every query key; with AsCode=TRUE (the case analysis before fix b70e98f) it exhibits F1. '
             'Conformance: each graph edge (set, overwrite, del incl. absent key, clear, update, save, load) is executed on the '
             'real class, then len/keys/items/values/iterators/get/in/[]/minKey/maxKey (unbounded and bounded by every key, '
             'absent prefixes, 00../ff.. prefixes, positions 0, 1, 2^48-1) must equal the table TLC printed; seeded long walks; '
             'FileStorage.record_iternext over sparse oids as consumer.',
        note='exhaustive within the bounded universes (small-scope); BTrees and pickle trusted',
        design='6/C19'),
    'C20': dict(
        technique='TLA+ spec ZStorage action property OidFresh model-checked by TLC; allocation-heavy TLC behaviours '
                  'replayed with an independent freshness monitor on every new_oid',
        text='new_oid of the real storages must return the oid the specification returns and the monitor requires it to be '
             'new for the session and absent from the storage, through stores/restores of arbitrary oids (data and undone-creation '
             'records), aborts, reopen.',
        note='allocation on DemoStorage stacks; oids spread over index buckets with new_oid; source-line granularity inside the allocators; file and mapping storages; demo layers in C16; concurrent allocators with the scheduler part',
        design='6/C20'),
}

NOT_APPLICABLE = []


def build():
    checks = []
    for pid in sorted(CHECKS):
        c = CHECKS[pid]
        checks.append({
            'property_id': pid,
            'quick_cmd': './check %s --tier quick' % pid,
            'thorough_cmd': './check %s --tier thorough' % pid,
            'evidence_file': 'evidence/%s.json' % pid,
            'replay_cmd_template': './check %s --replay {path}' % pid,
            'engine': 'zv',
            'level_claimed': {'category': c.get('category', 'model_checking'), 'text': c['text'],
                              'design_ref': 'DESIGN.md section ' + c['design']},
            'level_note': c['note'],
            'technique': c['technique'],
        })
    claimed = set(CHECKS)
    props = [json.loads(line)['id'] for line in open(os.path.join(ROOT, 'properties.jsonl'))]
    na = list(NOT_APPLICABLE)
    listed = {x['property_id'] for x in na}
    for p in props:
        if p not in claimed and p not in listed:
            na.append({'property_id': p, 'reason': 'not claimed yet: its specification and binding are still being built '
                                                   '(see DESIGN.md section 10, build order)'})
    return {
        'version': 1,
        'setup_cmd': 'sh ./setup.sh',
        'hooks': {
            'guard': 'ZODB_VERIF',
            'enable': 'no source hooks: ZODB is pure Python and is imported from /repo/src at call time; the harness '
                      'substitutes module globals (time, open, os, Lock) from outside. ZODB_VERIF=1 is set by zv.env '
                      'for the harness only; the repository does not read it.',
            'baseline_off_cmd': 'cd /repo && /venv/bin/python -m pytest -ra -q -p no:cacheprovider --timeout=900 '
                                '--continue-on-collection-errors',
            'source_commits': [],
            'add_only': True,
        },
        'engines': [{'name': 'zv', 'path': 'zv/', 'serves_properties': sorted(CHECKS),
                     'kind_free_text': 'TLA+ specifications in spec/ checked with TLC; Python binding in zv/ replays '
                                       'TLC behaviours on the real code and validates recorded traces with TLC'}],
        'checks': checks,
        'not_applicable': na,
        'notes': 'Model-based verification with explicit TLA+ specifications (spec/*.tla). Unguarded "fix:" commits '
                 'in /repo are listed in known_findings.json with status "fixed".',
    }


if __name__ == '__main__':
    m = build()
    with open(os.path.join(ROOT, 'MANIFEST.json'), 'w') as f:
        json.dump(m, f, indent=1)
        f.write('\n')
    print('MANIFEST.json: %d checks, %d not_applicable' % (len(m['checks']), len(m['not_applicable'])))
