"""Model values <-> real bytes.

tids:  model tid n = second * K + bump  <->  raw TimeStamp(T0 + second) + bump
oids:  model oid n <-> p64(n)
data:  datum [v, refs] of an object of class kind k <-> a ZODB record (class pickle + state pickle
       with persistent references), written and read here *without* ZODB.serialize so that the
       comparison does not depend on the code under test."""
import io
import struct
import time as _time

from persistent.TimeStamp import TimeStamp
from zodbpickle import pickle as zpickle

from . import clock
from .tlaparse import MV

z64 = b'\0' * 8
CLASSES = {'plain': ('zv.model_classes', 'VObj'), 'merge': ('zv.model_classes', 'MObj'),
           'mergefail': ('zv.model_classes', 'FObj'), 'mergeconflict': ('zv.model_classes', 'CObj'),
           'broken': ('zv.no_such_module', 'Missing'), 'newargs': ('zv.model_classes', 'NObj'),
           'mergeargs': ('zv.model_classes', 'NMObj')}


def p64(n):
    return struct.pack('>Q', n)


def u64(b):
    return struct.unpack('>Q', b)[0]


def raw_second(sec):
    t = clock.T0 + sec
    return u64(TimeStamp(*(_time.gmtime(t)[:5] + (t % 60,))).raw())


class Tids:
    """Bijection between model tids and real tids for a given spacing K."""

    def __init__(self, K):
        self.K = K
        self._cache = {}

    def real(self, n):
        if n == 0:
            return z64
        s, b = divmod(n, self.K)
        return p64(raw_second(s) + b)

    def model(self, tid):
        if tid is None:
            return 0
        if tid == z64:
            return 0
        v = u64(tid)
        s = int(TimeStamp(tid).timeTime()) - clock.T0
        for cand in (s, s - 1, s + 1):
            base = raw_second(cand)
            if 0 <= v - base < self.K:
                return cand * self.K + (v - base)
        return ('unmapped', tid.hex())


class Ref:
    """Stand-in for a persistent reference inside a pickled state."""

    def __init__(self, oid, kind='strong', cls=CLASSES['plain']):
        self.oid = oid
        self.kind = kind
        self.cls = cls


def _class_pickle_bytes(module, name):
    # protocol-3 GLOBAL opcode written by hand: the class need not be importable here
    return b'c' + module.encode() + b'\n' + name.encode() + b'\n'


def val_to_py(v):
    """<<"v1">> -> ['v1'];  <<"M", a, b, c>> -> ['M', A, B, C]"""
    return [val_to_py(x) if isinstance(x, tuple) else str(x) for x in v]


def py_to_val(v):
    return tuple(py_to_val(x) if isinstance(x, (list, tuple)) else str(x) for x in v)


def ref_tokens(oid, formats):
    """The persistent ids written for one referenced oid.  With formats on, some oids are referenced in several
    of the formats ZODB.serialize documents (strong with class, weak, bare oid) inside the same state."""
    if formats == 'bareonly':
        # some objects are referenced by their bare oid ONLY (what ZODB writes for targets whose class has
        # __getnewargs__ and for persistent classes): the pack GC must follow those references too
        return ['bare'] if oid % 3 == 2 else ['strong']
    out = ['strong']
    if formats:
        if oid % 2 == 1:
            out.append('weak')
        if oid % 3 == 2:
            out.append('bare')
        # cross-database forms (multi-database reference with / without class, weak reference into another database)
        if oid % 4 == 3:
            out.append('xdb-m')
        if oid % 4 == 2:
            out.append('xdb-n')
        if oid % 5 == 1:
            out.append('xdb-w')
        if oid % 4 == 1:
            out.append('xdb-mm')      # multi-database reference whose class cannot be imported when conflicts are resolved
    return out


def _transient_class():
    """a class that is importable while the record is written and gone afterwards"""
    import sys
    import types
    mod = sys.modules.get('zv_gone_mod')
    if mod is None:
        mod = types.ModuleType('zv_gone_mod')
        sys.modules['zv_gone_mod'] = mod
        mod.Gone = type('Gone', (object,), {'__module__': 'zv_gone_mod'})
    return mod.Gone


def _forget_transient():
    import sys
    sys.modules.pop('zv_gone_mod', None)


def _pid_of(ob):
    from . import model_classes
    if isinstance(ob, Ref):
        if ob.kind == 'weak':
            return ['w', (p64(ob.oid),)]
        if ob.kind == 'bare':
            return p64(ob.oid)
        if ob.kind == 'xdb-m':
            return ['m', ('other', p64(ob.oid), model_classes.VObj)]
        if ob.kind == 'xdb-mm':
            return ['m', ('other', p64(ob.oid), _transient_class())]
        if ob.kind == 'xdb-n':
            return ['n', ('other', p64(ob.oid))]
        if ob.kind == 'xdb-w':
            return ['w', (p64(ob.oid), 'other')]
        return (p64(ob.oid), model_classes.VObj)     # ordinary reference format: (oid, class)
    return None


def make_record(kind, v, refs, pad=0, formats=False):
    """Bytes of a record for an object of class `kind` with value v (model tuple) and
    strong references to the oids in refs (ints)."""
    module, name = CLASSES[kind]
    f = io.BytesIO()
    if kind == 'mergeargs':
        return _record_with_newargs(v, refs, pad, formats)
    f.write(b'\x80\x03' + _class_pickle_bytes(module, name) + b'q\x00.')
    p = zpickle.Pickler(f, 3)
    from . import model_classes

    pid2 = _pid_of
    p.persistent_id = pid2
    state = {'v': val_to_py(v), 'refs': [Ref(o, k) for o in sorted(refs) for k in ref_tokens(o, formats)]}
    if pad:
        state['pad'] = 'x' * pad
    p.dump(state)
    _forget_transient()
    return f.getvalue()


def _record_with_newargs(v, refs, pad, formats):
    """class part (class, (tag,)) and state written by ONE pickler, as ZODB.serialize.ObjectWriter does: the state
    refers to the tag object through the pickle memo"""
    from . import model_classes
    f = io.BytesIO()
    p = zpickle.Pickler(f, 3)

    pid2 = _pid_of
    p.persistent_id = pid2
    value = val_to_py(v)
    tag = model_classes.Tag(repr(value))        # the very same object appears in the class part and in the state
    p.dump((model_classes.NMObj, (tag,)))
    state = {'v': value, 'refs': [Ref(o, k) for o in sorted(refs) for k in ref_tokens(o, formats)], 'tag': tag}
    if pad:
        state['pad'] = 'x' * pad
    p.dump(state)
    _forget_transient()
    return f.getvalue()


def ref_oid(pid):
    """oid (int) and kind of a persistent id in any of the formats ZODB.serialize documents."""
    if isinstance(pid, tuple):
        return u64(_b(pid[0])), 'strong'
    if isinstance(pid, (bytes, str)):
        return u64(_b(pid)), 'bare'
    if isinstance(pid, list):
        if len(pid) == 1:
            return u64(_b(pid[0])), 'weak'
        tag, args = pid
        if tag == 'w':
            return u64(_b(args[0])), ('weak' if len(args) == 1 else 'xdb-w')
        if tag == 'n':
            return u64(_b(args[1])), 'xdb-n'
        if tag == 'm':
            return u64(_b(args[1])), ('xdb-mm' if tuple(args[2])[:1] == ('zv_gone_mod',) else 'xdb-m')
    raise ValueError('unknown reference format %r' % (pid,))


def _b(x):
    return x.encode('latin-1') if isinstance(x, str) else x


class _LoadedRef:
    def __init__(self, pid):
        self.pid = pid
        self.oid, self.kind = ref_oid(pid)


class _Unp(zpickle.Unpickler):
    def find_class(self, module, name):
        if (module, name) == ('zv.model_classes', 'Tag'):
            from . import model_classes
            return model_classes.Tag
        return (module, name)

    def persistent_load(self, pid):
        return _LoadedRef(pid)


def read_record(data):
    """-> (class (module, name), value tuple, frozenset of strong same-db referenced oids)"""
    f = io.BytesIO(data)
    u = _Unp(f)
    meta = u.load()
    state = u.load()
    klass = meta[0] if isinstance(meta, tuple) and isinstance(meta[0], tuple) else meta
    refs = frozenset(r.oid for r in state.get('refs', ()) if isinstance(r, _LoadedRef) and r.kind in ('strong', 'bare'))
    read_record.tokens = sorted((r.oid, r.kind) for r in state.get('refs', ()) if isinstance(r, _LoadedRef))
    # a merged NMObj state lists the shared objects of the three states the resolver was given: each must be the Tag
    # that was written with that state
    read_record.tag_error = None
    if 'tags' in state:
        want = [repr(x) for x in state['v'][1:4]]
        got = [getattr(t, 'name', repr(t)) for t in state['tags']]
        if got != want:
            read_record.tag_error = tuple(got)
    return klass, py_to_val(state['v']), refs


STRIDE = 1           # model oid n <-> real oid n * STRIDE (set by the replayer that concretises with a stride)
FORMATS = False      # set by a check that concretises references in several formats (C10)


def datum_of(data):
    """model datum dict for record bytes (None -> Gone)"""
    if data is None:
        return {'v': ('gone',), 'refs': frozenset()}
    k, v, refs = read_record(data)
    if STRIDE != 1:
        refs = frozenset(r // STRIDE if r % STRIDE == 0 else ('unmapped-oid', r) for r in refs)
    d = {'v': v, 'refs': refs}
    if read_record.tag_error is not None:
        d['shared_object_lost'] = read_record.tag_error
    if FORMATS:
        want = sorted((o, t) for o in refs for t in ref_tokens(o, FORMATS))
        if read_record.tokens != want:
            d['reference_formats'] = tuple(read_record.tokens)     # shows up as a divergence
    return d


def norm(x):
    """Normalise parsed TLA values for comparison (MV -> str, sets -> frozenset, seq -> tuple)."""
    if isinstance(x, dict):
        return {(str(k) if isinstance(k, MV) else k): norm(v) for k, v in x.items()}
    if isinstance(x, (tuple, list)):
        return tuple(norm(v) for v in x)
    if isinstance(x, (set, frozenset)):
        return frozenset(norm(v) for v in x)
    if isinstance(x, MV):
        return str(x)
    return x
