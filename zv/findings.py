"""known_findings.json: genuine defects recorded (status "known") or repaired (status "fixed").

A violation carries a *signature*: a flat dict naming the failing case structurally.
A known entry matches when every key of its "match" dict equals the signature's value
(a list value in "match" means: any of these).  Fixed entries suppress nothing.
The file is never written at run time."""
import json
import os

ROOT = os.path.dirname(os.path.dirname(os.path.abspath(__file__)))
PATH = os.path.join(ROOT, 'known_findings.json')


def load():
    if not os.path.exists(PATH):
        return []
    with open(PATH) as f:
        return json.load(f)['findings']


def match(pid, signature, findings=None):
    findings = load() if findings is None else findings
    for f in findings:
        if f.get('status') != 'known' or (f['property'] != pid and pid not in f.get('also', ())):
            continue
        ok = True
        for k, v in f['match'].items():
            sv = signature.get(k)
            if isinstance(v, list):
                if sv not in v:
                    ok = False
                    break
            elif sv != v:
                ok = False
                break
        if ok:
            return f
    return None
