"""Import ZODB from the working tree under test and hand out its modules.

Nothing is built: ZODB is pure Python, so importing `<repo>/src` at call time *is*
the rebuild from the current working tree."""
import logging
import os
import sys

REPO = None


def setup(repo=None):
    global REPO
    repo = os.path.abspath(repo or os.environ.get('ZV_REPO') or '/repo')
    src = os.path.join(repo, 'src')
    if not os.path.isdir(os.path.join(src, 'ZODB')):
        raise RuntimeError('no ZODB package under %s' % src)
    if 'ZODB' in sys.modules:
        if REPO != repo:
            raise RuntimeError('ZODB already imported from another tree')
        return sys.modules['ZODB']
    sys.path.insert(0, src)
    sys.dont_write_bytecode = True
    os.environ.setdefault('ZODB_VERIF', '1')
    import ZODB
    got = os.path.realpath(os.path.dirname(ZODB.__file__))
    want = os.path.realpath(os.path.join(src, 'ZODB'))
    if got != want:
        raise RuntimeError('ZODB imported from %s, expected %s' % (got, want))
    REPO = repo
    logging.disable(logging.CRITICAL)
    import warnings
    warnings.simplefilter('ignore')
    return ZODB


def mod(name):
    """The module object (not whatever the parent package re-exported under that name)."""
    __import__(name)
    return sys.modules[name]
