"""A fake `time` module object substituted (harness side) into the ZODB modules that read the
clock, so that the model's clock choices (advance / stall / step back) drive real tids."""
import sys
import time as _real

T0 = 1577836800          # 2020-01-01 00:00:00 UTC; whole seconds make TimeStamp exact
TARGETS = ('ZODB.BaseStorage', 'ZODB.utils', 'ZODB.FileStorage.FileStorage', 'ZODB.MappingStorage',
           'ZODB.DemoStorage', 'ZODB.DB', 'ZODB.scripts.repozo')


class FakeTime:
    def __init__(self):
        self.now = float(T0 + 1)

    def time(self):
        return self.now

    def set(self, seconds):
        self.now = float(T0 + seconds)

    def __getattr__(self, name):
        return getattr(_real, name)


CLOCK = FakeTime()


def install():
    """Replace the module-global name `time` in every ZODB module that reads the clock.
    Fails loudly if a target has no such global (a refactoring that bypasses the layer)."""
    n = 0
    for name in TARGETS:
        __import__(name)
        m = sys.modules[name]
        if getattr(m, 'time', None) is None:
            continue
        if not (m.time is _real or isinstance(m.time, FakeTime)):
            raise RuntimeError('%s.time is not the time module' % name)
        m.time = CLOCK
        n += 1
    if n < 3:
        raise RuntimeError('clock substitution took in only %d modules' % n)
    return CLOCK
