"""Evidence files (/verif/evidence/<id>.json), schema-checked before they are written."""
import json
import os

ROOT = os.path.dirname(os.path.dirname(os.path.abspath(__file__)))
LEVELS = ('exploration', 'fault_enumeration', 'model_checking', 'proof', 'translation_validation', 'other')


def _check(ev):
    for k in ('property_id', 'tier', 'seed', 'level', 'coverage', 'wall_s'):
        if k not in ev:
            raise ValueError('evidence lacks %s' % k)
    if ev['tier'] not in ('quick', 'thorough') or ev['level'] not in LEVELS:
        raise ValueError('bad tier/level')
    if not isinstance(ev['seed'], int):
        raise ValueError('seed must be int')
    c = ev['coverage']
    if ev['level'] == 'model_checking':
        for k in ('states', 'transitions', 'traces_validated_against_impl', 'samples'):
            if k not in c:
                raise ValueError('model_checking evidence lacks coverage.%s' % k)
        if c['states'] < 1 or c['transitions'] < 1 or not c['samples']:
            raise ValueError('model_checking evidence with empty counts')
    for k in ('evaluations', 'distinct_nontrivial'):
        if k in c and (not isinstance(c[k], int) or c[k] < 0):
            raise ValueError('bad %s' % k)


def write(pid, tier, seed, level, coverage, assumptions, wall_s, violations, path=None):
    ev = {'property_id': pid, 'tier': tier, 'seed': int(seed), 'level': level, 'coverage': coverage,
          'assumptions': list(assumptions), 'wall_s': round(float(wall_s), 2), 'violations': int(violations)}
    _check(ev)
    path = path or os.path.join(ROOT, 'evidence', '%s.json' % pid)
    os.makedirs(os.path.dirname(path), exist_ok=True)
    tmp = path + '.tmp'
    with open(tmp, 'w') as f:
        json.dump(ev, f, indent=1, sort_keys=True, default=str)
        f.write('\n')
    os.replace(tmp, path)
    return path
